#!/usr/bin/env bash
# keep_mutant.sh WORKTREE ID : copy a confirmed seeded change into /verif/seeded/ID
set -eu
WT="$1"; ID="$2"; D="/verif/seeded/$ID"
mkdir -p "$D"
git -C "$WT" diff -- src > "$D/patch.diff"
cp "$WT/demo.sh" "$D/demo.sh"; cp "$WT/NOTES.md" "$D/NOTES.md"
git -C /repo apply --check "$D/patch.diff" && echo "$ID kept; patch applies to /repo"
