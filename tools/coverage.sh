#!/usr/bin/env bash
# One-off analysis aid (not part of any check): which regions of /repo/src does the C13 workload
# reach? Builds an instrumented gram with the nightly toolchain into a scratch dir, runs `check`
# and `run` on the files of the first N in-process groups, and prints per-file line coverage plus
# the uncovered lines of the non-test code. usage: tools/coverage.sh [N] (default 4400)
set -u
HERE="$(cd "$(dirname "${BASH_SOURCE[0]}")/.." && pwd)"
N="${1:-4400}"
SCR=/tmp/gram-cov; rm -rf "$SCR"; mkdir -p "$SCR/files" "$SCR/prof"
BIN=$(ls /root/.rustup/toolchains/nightly-x86_64-unknown-linux-gnu/lib/rustlib/x86_64-unknown-linux-gnu/bin)
TOOLS=/root/.rustup/toolchains/nightly-x86_64-unknown-linux-gnu/lib/rustlib/x86_64-unknown-linux-gnu/bin
( cd /repo && RUSTFLAGS="-C instrument-coverage" cargo +nightly build --offline --quiet --target-dir "$SCR/target" ) || exit 2
"$HERE/target/sim/release/gramsim" dump --repo /repo --seed "${VERIF_SEED:-1}" --ip-groups "$N" --work "$SCR/files" || exit 2
cd "$SCR/files"
ls | xargs -P 6 -I{} sh -c 'LLVM_PROFILE_FILE='"$SCR"'/prof/{}-c.profraw NO_COLOR=1 timeout 5 '"$SCR"'/target/debug/gram check {} >/dev/null 2>&1; LLVM_PROFILE_FILE='"$SCR"'/prof/{}-r.profraw NO_COLOR=1 timeout 5 '"$SCR"'/target/debug/gram run {} >/dev/null 2>&1'
"$TOOLS/llvm-profdata" merge -sparse "$SCR"/prof/*.profraw -o "$SCR/all.profdata" || exit 2
"$TOOLS/llvm-cov" report "$SCR/target/debug/gram" -instr-profile="$SCR/all.profdata" --ignore-filename-regex='\.cargo|rustc' 2>/dev/null | cut -c1-200
"$TOOLS/llvm-cov" show "$SCR/target/debug/gram" -instr-profile="$SCR/all.profdata" --ignore-filename-regex='\.cargo|rustc' -show-line-counts-or-regions 2>/dev/null > "$SCR/show.txt"
echo "annotated source: $SCR/show.txt"
