#!/usr/bin/env bash
# Confirm a candidate seeded change in a scratch worktree: usage confirm_mutant.sh WORKTREE
# (the worktree has the change applied and contains mutant.patch and demo.sh).
# Builds the changed tree and a clean tree (HEAD with the patch reversed) into separate target
# dirs inside the worktree, runs the repository's test suite on the changed tree, and runs the
# demonstration against both binaries.
set -u
WT="$1"
cd "$WT" || exit 2
export CARGO_NET_OFFLINE=true
echo "== patch touches: $(git diff --stat -- src | tail -1)"
echo "== build (changed tree)"; cargo build --offline --quiet 2>&1 | tail -3
echo "== tests (changed tree)"; cargo test --offline --quiet 2>&1 | grep -E "^test result|FAILED|failed" | head -5
echo "== clean tree build"
rm -rf "$WT/.clean" && mkdir "$WT/.clean" && git archive HEAD | tar -x -C "$WT/.clean" \
  && ( cd "$WT/.clean" && cargo build --offline --quiet --target-dir "$WT/target-clean" 2>&1 | tail -3 )
rm -rf "$WT/.clean"
echo "== demo on changed binary"; bash "$WT/demo.sh" "$WT/target/debug/gram" >/tmp/demo_mut.out 2>&1; echo "exit=$? (expect 1)"; tail -3 /tmp/demo_mut.out
echo "== demo on clean binary"; bash "$WT/demo.sh" "$WT/target-clean/debug/gram" >/tmp/demo_clean.out 2>&1; echo "exit=$? (expect 0)"; tail -2 /tmp/demo_clean.out
