#!/usr/bin/env bash
# Validates MANIFEST.json and every evidence file against the given schemas.
python3-vt - <<'P'
import json,jsonschema,glob,sys
m=json.load(open('/verif/MANIFEST.json')); jsonschema.validate(m,json.load(open('/root/.vp/MANIFEST.schema.json'))); print('manifest ok')
s=json.load(open('/root/.vp/EVIDENCE.schema.json'))
for f in sorted(glob.glob('/verif/evidence/*.json')):
    jsonschema.validate(json.load(open(f)),s); print('evidence ok',f)
props=[json.loads(l)['id'] for l in open('/verif/properties.jsonl') if l.strip()]
claimed={c['property_id'] for c in m['checks']}; na={n['property_id'] for n in m.get('not_applicable',[])}
assert claimed|na==set(props) and not (claimed&na), (claimed,na)
print('all',len(props),'properties accounted for')
P
