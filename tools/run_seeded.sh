#!/usr/bin/env bash
# Run the C13 check against every seeded change under /verif/seeded: apply it to /repo, run the
# quick check with its outputs redirected to a scratch directory, undo it straight afterwards.
# usage: tools/run_seeded.sh [id ...]      (default: all)
set -u
HERE="$(cd "$(dirname "${BASH_SOURCE[0]}")/.." && pwd)"
cd "$HERE" || exit 2
ids=("$@"); [ ${#ids[@]} -eq 0 ] && ids=($(ls seeded))
git -C /repo diff --quiet || { echo "/repo has uncommitted changes; refusing"; exit 2; }
for id in "${ids[@]}"; do
  out="$HERE/target/seeded-out/$id"; rm -rf "$out"; mkdir -p "$out"
  git -C /repo apply "$HERE/seeded/$id/patch.diff" || { echo "$id: patch does not apply"; continue; }
  VERIF_OUT="$out" ./check C13 "${TIER:-quick}" >"$out/log.txt" 2>&1; rc=$?
  git -C /repo apply -R "$HERE/seeded/$id/patch.diff" 2>/dev/null; git -C /repo checkout -- . 
  groups=$(grep -o '"violation": [0-9]*' "$out/log.txt" | head -1)
  echo "$id: exit=$rc $(grep -c '^VIOLATION' "$out/log.txt") replay(s); $groups; $(grep -E '^  group' "$out/log.txt" | head -2 | tr '\n' ' ')"
done
git -C /repo status --short | head -3
