/*
 * entropy_shim.c — LD_PRELOAD seam for the exec tier of the C13 simulator.
 *
 * std's RandomState takes its SipHash keys from getrandom(2), which it calls
 * through a weak symbol precisely so that it can be interposed.  This shim
 * defines that symbol, so the simulator (not the kernel) decides the 16 bytes
 * every hash container of the launched process is keyed with, and it can make
 * the call misbehave in the ways the real call legally may (short reads,
 * EINTR, a kernel that does not know GRND_INSECURE).
 *
 * The constructor additionally displaces the heap and the mmap area by amounts
 * the simulator chose; together with personality(ADDR_NO_RANDOMIZE), set by
 * the driver before exec, that makes pointer values a function of the plan.
 *
 * Plan (environment, all optional except GRAMSIM_KEY):
 *   GRAMSIM_KEY=<hex>        bytes handed out, in order, by successive calls;
 *                            when exhausted the stream continues with a
 *                            SplitMix64 sequence seeded from the key itself
 *   GRAMSIM_EINTR=<n>        the first n calls fail with EINTR
 *   GRAMSIM_NOINSECURE=1     calls carrying GRND_INSECURE fail with EINVAL
 *   GRAMSIM_CHUNK=<n>        deliver at most n bytes per call (short reads)
 *   GRAMSIM_SKEW_HEAP=<n>    leak one malloc(n) before main
 *   GRAMSIM_SKEW_MMAP=<n>    leak one anonymous mmap of n bytes before main
 *   GRAMSIM_CLOCK=<sec>      simulated clock: every clock_gettime / gettimeofday / time call
 *   GRAMSIM_CLOCK_STEP=<ns>  returns <sec> plus <ns> times the number of earlier calls; when
 *                            GRAMSIM_CLOCK is absent the real clock is used (never the case
 *                            under the simulator)
 *   GRAMSIM_PID=<n>          value returned by getpid(); gettid() returns <n> + k for the k-th
 *                            thread that asks (the Rust runtime prints the thread id in its
 *                            panic and stack-overflow banners)
 *   GRAMSIM_RSS=<kib>        what /proc/self/status (VmRSS, VmHWM, RssAnon) and /proc/self/statm
 *                            report as the resident set size: a process's memory statistics are
 *                            the machine's, not a function of the input file
 *   GRAMSIM_STALL=<a,b,c,..> stall the k-th thread the process creates by that many microseconds
 *                            before its start routine runs ("slow or stalled node"): gram itself
 *                            creates one thread and joins it, so this changes nothing on the
 *                            current tree, but it makes a race that a change introduces show up
 *   GRAMSIM_LINGER=<a,b,..>  after creating its k-th thread, the creating thread sleeps that many
 *                            microseconds (it is descheduled right after clone, as happens under
 *                            load), so the new thread runs first
 *   GRAMSIM_LOG=<path>       append one line per call: "<len> <flags> <ret>", one line
 *                            "S <heap> <mmap>" when the constructor displaced the layout, one
 *                            line "T" per simulated clock read and "P" per simulated getpid
 *
 * Nothing here reads a clock or any other source the simulator does not own.
 */
#define _GNU_SOURCE
#include <errno.h>
#include <fcntl.h>
#include <stdint.h>
#include <sched.h>
#include <stdio.h>
#include <stdlib.h>
#include <string.h>
#include <sys/mman.h>
#include <sys/time.h>
#include <sys/types.h>
#include <time.h>
#include <unistd.h>
#include <dlfcn.h>
#include <sys/syscall.h>
#include <sys/stat.h>

#ifndef GRND_INSECURE
#define GRND_INSECURE 0x0004
#endif

static unsigned char key_bytes[256];
static size_t key_len = 0;
static size_t key_pos = 0;
static uint64_t tail_state = 0;
static long eintr_left = 0;
static int no_insecure = 0;
static size_t chunk = 0;
static int log_fd = -1;
static int ready = 0;
static int clock_owned = 0;
static uint64_t clock_base = 0;
static uint64_t clock_step = 0;
static uint64_t clock_reads = 0;
static uint64_t clock_extra = 0; /* simulated time that passed inside timed waits and sleeps */
static long fake_pid = 0;
static unsigned stall_us[16];
static int stall_n = 0;
static unsigned linger_us[16];
static int linger_n = 0;
static int threads_created = 0;

static int hexval(int c) {
    if (c >= '0' && c <= '9') return c - '0';
    if (c >= 'a' && c <= 'f') return c - 'a' + 10;
    if (c >= 'A' && c <= 'F') return c - 'A' + 10;
    return -1;
}

static uint64_t splitmix(uint64_t *s) {
    uint64_t z = (*s += 0x9E3779B97F4A7C15ULL);
    z = (z ^ (z >> 30)) * 0xBF58476D1CE4E5B9ULL;
    z = (z ^ (z >> 27)) * 0x94D049BB133111EBULL;
    return z ^ (z >> 31);
}

/* Raw system call: everything the shim itself needs from the kernel goes through this, because
   the libc wrappers `syscall`, `read` and `nanosleep` are themselves interposed below. */
static long raw6(long n, long a, long b, long c, long d, long e, long f) {
    long ret;
    register long r10 __asm__("r10") = d;
    register long r8 __asm__("r8") = e;
    register long r9 __asm__("r9") = f;
    __asm__ volatile("syscall" : "=a"(ret) : "a"(n), "D"(a), "S"(b), "d"(c), "r"(r10), "r"(r8), "r"(r9) : "rcx", "r11", "memory");
    return ret;
}
static long wait_ppm = 1000000;   /* timed waits and sleeps last this many millionths of what was asked */
static long read_chunk = 0;       /* reads of regular files deliver at most 1..read_chunk bytes per call */
static long read_eintr = 0;       /* the first n reads of regular files fail with EINTR */
static uint64_t read_state = 0;
static long crash_at = 0;         /* the process is killed at its crash_at-th durable-state operation (0: never) */
static long durable_ops = 0;
static void durable_op(const char *what);
static long pause_at = 0;         /* the process stalls for pause_ms at its pause_at-th durable-state operation */
static long pause_ms = 0;
static char pause_marker[4096];

static void set_key_hex(const char *k);
static void set_stalls(const char *list);
static void set_lingers(const char *list);
static __thread int tid_index;
static int tid_next;
static long fake_rss_kib;
static unsigned long long cpu_readings = 0;

static void init_once(void) {
    if (ready) return;
    ready = 1;
    set_key_hex(getenv("GRAMSIM_KEY"));
    const char *e = getenv("GRAMSIM_EINTR");
    if (e) eintr_left = strtol(e, NULL, 10);
    const char *n = getenv("GRAMSIM_NOINSECURE");
    if (n && n[0] == '1') no_insecure = 1;
    const char *c = getenv("GRAMSIM_CHUNK");
    if (c) chunk = (size_t)strtoul(c, NULL, 10);
    const char *cb = getenv("GRAMSIM_CLOCK");
    if (cb) {
        clock_owned = 1;
        clock_base = strtoull(cb, NULL, 10);
        const char *cs = getenv("GRAMSIM_CLOCK_STEP");
        clock_step = cs ? strtoull(cs, NULL, 10) : 1000000ULL;
    }
    const char *fp = getenv("GRAMSIM_PID");
    if (fp) fake_pid = strtol(fp, NULL, 10);
    const char *rss = getenv("GRAMSIM_RSS");
    fake_rss_kib = rss ? strtol(rss, NULL, 10) : 0;
    set_stalls(getenv("GRAMSIM_STALL"));
    set_lingers(getenv("GRAMSIM_LINGER"));
    const char *wp = getenv("GRAMSIM_WAIT_PPM");
    if (wp) wait_ppm = strtol(wp, NULL, 10);
    const char *rc = getenv("GRAMSIM_READ_CHUNK");
    if (rc) read_chunk = strtol(rc, NULL, 10);
    const char *re = getenv("GRAMSIM_READ_EINTR");
    if (re) read_eintr = strtol(re, NULL, 10);
    const char *ca = getenv("GRAMSIM_CRASH_AT");
    if (ca) crash_at = strtol(ca, NULL, 10);
    const char *pa = getenv("GRAMSIM_PAUSE_AT");
    if (pa) pause_at = strtol(pa, NULL, 10);
    const char *pm = getenv("GRAMSIM_PAUSE_MS");
    if (pm) pause_ms = strtol(pm, NULL, 10);
    const char *pk = getenv("GRAMSIM_PAUSE_MARKER");
    if (pk) strncpy(pause_marker, pk, sizeof pause_marker - 1);
    const char *l = getenv("GRAMSIM_LOG");
    if (l) log_fd = (int)raw6(SYS_openat, AT_FDCWD, (long)l, O_WRONLY | O_CREAT | O_APPEND | O_CLOEXEC, 0644, 0, 0);
}

static void log_call(size_t len, unsigned flags, long ret) {
    if (log_fd < 0) return;
    char line[96];
    int n = snprintf(line, sizeof line, "%zu %u %ld\n", len, flags, ret);
    if (n > 0) {
        raw6(SYS_write, log_fd, (long)line, (long)n, 0, 0, 0);
    }
}

static void set_key_hex(const char *k) {
    key_len = 0;
    key_pos = 0;
    while (k && k[0] && k[1] && key_len < sizeof key_bytes) {
        int hi = hexval(k[0]), lo = hexval(k[1]);
        if (hi < 0 || lo < 0) break;
        key_bytes[key_len++] = (unsigned char)(hi * 16 + lo);
        k += 2;
    }
    tail_state = 0x6772616d73696dULL;
    for (size_t i = 0; i < key_len; i++) tail_state = tail_state * 0x100000001B3ULL + key_bytes[i];
}

static int parse_list(const char *list, unsigned *out) {
    int n = 0;
    while (list && *list && n < 16) {
        char *end = NULL;
        out[n++] = (unsigned)strtoul(list, &end, 10);
        if (!end || *end != ',') break;
        list = end + 1;
    }
    return n;
}

static void set_stalls(const char *list) {
    threads_created = 0;
    stall_n = parse_list(list, stall_us);
}

static void set_lingers(const char *list) {
    linger_n = parse_list(list, linger_us);
}

/* Displace the heap and the mmap area by the amounts the plan chose, and say so in the log. */
static void displace(size_t heap, size_t map) {
    size_t did_heap = 0, did_mmap = 0;
    if (heap) {
        volatile char *p = malloc(heap);
        if (p) { p[0] = 1; did_heap = heap; } /* leaked on purpose */
    }
    if (map) {
        /* Address space only: glibc places thread arenas at 64 MiB-aligned addresses, so the
           displacement has to be of that order to move a worker thread's heap at all. */
        void *p = mmap(NULL, map, PROT_NONE, MAP_PRIVATE | MAP_ANONYMOUS | MAP_NORESERVE, -1, 0);
        if (p != MAP_FAILED) did_mmap = map; /* leaked on purpose */
    }
    if ((did_heap || did_mmap) && log_fd >= 0) {
        char line[96];
        int k = snprintf(line, sizeof line, "S %zu %zu\n", did_heap, did_mmap);
        if (k > 0) {
            ssize_t w = write(log_fd, line, (size_t)k);
            (void)w;
        }
    }
}

/*
 * Fork server (GRAMSIM_FORKSERVER=1): process creation by exec costs ~13 ms in this kind of VM and
 * does not scale with cores, so the simulator can instead start the real binary once, stop it
 * here - after the dynamic loader, before the executable's own initialisers and main - and fork
 * one child per launch. Each child receives its plan, its arguments, its environment and its
 * output files over the control pipe (fd 0), then simply returns from this constructor and runs
 * the unmodified program. The parent reports "P <pid>" and, when the child has ended,
 * "X <wait status>" on fd 1.
 */
static int read_line(int fd, char *buf, size_t cap) {
    size_t n = 0;
    for (;;) {
        char c;
        ssize_t r = read(fd, &c, 1);
        if (r == 0) return n ? (int)n : -1;
        if (r < 0) {
            if (errno == EINTR) continue;
            return -1;
        }
        if (c == '\n') break;
        if (n + 1 < cap) buf[n++] = c;
    }
    buf[n] = 0;
    return (int)n;
}

#include <signal.h>
#include <sys/prctl.h>
#include <sys/wait.h>

static void forkserver(char **argv) {
    static char line[1 << 16];
    char out_path[4096] = "", err_path[4096] = "", log_path[4096] = "", cwd[4096] = "";
    char key_hex[600] = "";
    char stall_list[256] = "";
    char linger_list[256] = "";
    size_t heap = 0, map = 0;
    long p_eintr = 0, p_noinsecure = 0, p_chunk = 0, p_pid = 0, p_rss = 0;
    long p_wait = 1000000, p_rchunk = 0, p_reintr = 0, p_crash = 0;
    unsigned long long p_clock = 0, p_step = 0;
    int have_clock = 0;
    /* pending argv / env edits of the next launch */
    static char *arg_val[16];
    static char *env_set[32];
    static char *env_unset[32];
    int n_env_set = 0, n_env_unset = 0;
    memset(arg_val, 0, sizeof arg_val);
    for (;;) {
        int n = read_line(0, line, sizeof line);
        if (n < 0) _exit(0);
        if (!strncmp(line, "KEY ", 4)) { strncpy(key_hex, line + 4, sizeof key_hex - 1); }
        else if (!strncmp(line, "EINTR ", 6)) p_eintr = strtol(line + 6, NULL, 10);
        else if (!strncmp(line, "NOINSECURE ", 11)) p_noinsecure = strtol(line + 11, NULL, 10);
        else if (!strncmp(line, "CHUNK ", 6)) p_chunk = strtol(line + 6, NULL, 10);
        else if (!strncmp(line, "SKEW_HEAP ", 10)) heap = strtoul(line + 10, NULL, 10);
        else if (!strncmp(line, "SKEW_MMAP ", 10)) map = strtoul(line + 10, NULL, 10);
        else if (!strncmp(line, "CLOCK ", 6)) {
            char *end = NULL;
            p_clock = strtoull(line + 6, &end, 10);
            p_step = end ? strtoull(end, NULL, 10) : 0;
            have_clock = 1;
        }
        else if (!strncmp(line, "PID ", 4)) p_pid = strtol(line + 4, NULL, 10);
        else if (!strncmp(line, "RSS ", 4)) p_rss = strtol(line + 4, NULL, 10);
        else if (!strncmp(line, "WAIT ", 5)) p_wait = strtol(line + 5, NULL, 10);
        else if (!strncmp(line, "CRASH ", 6)) p_crash = strtol(line + 6, NULL, 10);
        else if (!strncmp(line, "READ ", 5)) { char *end = NULL; p_rchunk = strtol(line + 5, &end, 10); p_reintr = end ? strtol(end, NULL, 10) : 0; }
        else if (!strncmp(line, "STALL ", 6)) { strncpy(stall_list, line + 6, sizeof stall_list - 1); }
        else if (!strncmp(line, "LINGER ", 7)) { strncpy(linger_list, line + 7, sizeof linger_list - 1); }
        else if (!strncmp(line, "LOG ", 4)) strncpy(log_path, line + 4, sizeof log_path - 1);
        else if (!strncmp(line, "OUT ", 4)) strncpy(out_path, line + 4, sizeof out_path - 1);
        else if (!strncmp(line, "ERR ", 4)) strncpy(err_path, line + 4, sizeof err_path - 1);
        else if (!strncmp(line, "CWD ", 4)) strncpy(cwd, line + 4, sizeof cwd - 1);
        else if (!strncmp(line, "ENV ", 4)) { if (n_env_set < 32) env_set[n_env_set++] = strdup(line + 4); }
        else if (!strncmp(line, "UNSETENV ", 9)) { if (n_env_unset < 32) env_unset[n_env_unset++] = strdup(line + 9); }
        else if (!strncmp(line, "ARG ", 4)) {
            char *end = NULL;
            long i = strtol(line + 4, &end, 10);
            if (i > 0 && i < 16 && end && *end == ' ') arg_val[i] = strdup(end + 1);
        }
        else if (!strcmp(line, "GO")) {
            pid_t child = fork();
            if (child == 0) {
                /* the launch: become exactly what an exec'd gram would be at this point */
                prctl(PR_SET_PDEATHSIG, SIGKILL);
                int devnull = open("/dev/null", O_RDONLY);
                int out = open(out_path, O_WRONLY | O_CREAT | O_TRUNC, 0644);
                int err = open(err_path, O_WRONLY | O_CREAT | O_TRUNC, 0644);
                if (devnull < 0 || out < 0 || err < 0) _exit(125);
                dup2(devnull, 0); dup2(out, 1); dup2(err, 2);
                close(devnull); close(out); close(err);
                if (cwd[0] && chdir(cwd) != 0) _exit(125);
                for (int i = 0; i < n_env_unset; i++) unsetenv(env_unset[i]);
                for (int i = 0; i < n_env_set; i++) putenv(env_set[i]);
                unsetenv("GRAMSIM_FORKSERVER");
                for (int i = 1; i < 16; i++) if (arg_val[i]) argv[i] = arg_val[i];
                set_key_hex(key_hex);
                eintr_left = p_eintr; no_insecure = (int)p_noinsecure; chunk = (size_t)p_chunk;
                clock_owned = have_clock; clock_base = p_clock; clock_step = p_step; clock_reads = 0; clock_extra = 0;
                fake_pid = p_pid;
                fake_rss_kib = p_rss;
                wait_ppm = p_wait; read_chunk = p_rchunk; read_eintr = p_reintr; read_state = 0; crash_at = p_crash; durable_ops = 0;
                cpu_readings = 0;
                tid_next = 0;
                tid_index = -1;
                set_stalls(stall_list);
                set_lingers(linger_list);
                log_fd = log_path[0] ? (int)raw6(SYS_openat, AT_FDCWD, (long)log_path, O_WRONLY | O_CREAT | O_APPEND | O_CLOEXEC, 0644, 0, 0) : -1;
                displace(heap, map);
                return; /* on to the executable's initialisers and main */
            }
            char msg[64];
            int k = snprintf(msg, sizeof msg, "P %d\n", (int)child);
            if (write(1, msg, (size_t)k) < 0) _exit(0);
            int status = 0;
            if (child > 0) {
                while (waitpid(child, &status, 0) < 0 && errno == EINTR) {}
            } else {
                status = 0x7f00; /* fork failed: report as exit 127 */
            }
            k = snprintf(msg, sizeof msg, "X %d\n", status);
            if (write(1, msg, (size_t)k) < 0) _exit(0);
            /* reset the per-launch edits */
            for (int i = 0; i < n_env_set; i++) free(env_set[i]);
            for (int i = 0; i < n_env_unset; i++) free(env_unset[i]);
            for (int i = 1; i < 16; i++) { free(arg_val[i]); arg_val[i] = NULL; }
            n_env_set = n_env_unset = 0;
            heap = map = 0; p_eintr = p_noinsecure = p_chunk = p_pid = p_rss = 0; have_clock = 0;
            p_wait = 1000000; p_rchunk = p_reintr = 0; p_crash = 0;
            out_path[0] = err_path[0] = log_path[0] = cwd[0] = key_hex[0] = stall_list[0] = linger_list[0] = 0;
        }
    }
}

__attribute__((constructor)) static void gramsim_ctor(int argc, char **argv, char **envp) {
    (void)argc; (void)envp;
    init_once();
    const char *fs = getenv("GRAMSIM_FORKSERVER");
    if (fs && fs[0] == '1') {
        forkserver(argv); /* returns only in a forked child, fully configured */
        return;
    }
    const char *h = getenv("GRAMSIM_SKEW_HEAP");
    const char *m = getenv("GRAMSIM_SKEW_MMAP");
    displace(h ? (size_t)strtoul(h, NULL, 10) : 0, m ? (size_t)strtoul(m, NULL, 10) : 0);
}

ssize_t getrandom(void *buf, size_t buflen, unsigned int flags) {
    init_once();
    if (eintr_left > 0) {
        eintr_left--;
        log_call(buflen, flags, -EINTR);
        errno = EINTR;
        return -1;
    }
    if (no_insecure && (flags & GRND_INSECURE)) {
        log_call(buflen, flags, -EINVAL);
        errno = EINVAL;
        return -1;
    }
    size_t n = buflen;
    if (chunk && n > chunk) n = chunk;
    unsigned char *out = buf;
    for (size_t i = 0; i < n; i++) {
        if (key_pos < key_len) {
            out[i] = key_bytes[key_pos++];
        } else {
            out[i] = (unsigned char)(splitmix(&tail_state) & 0xff);
        }
    }
    log_call(buflen, flags, (long)n);
    return (ssize_t)n;
}

static void log_mark(const char *mark) {
    if (log_fd < 0) return;
    raw6(SYS_write, log_fd, (long)mark, (long)strlen(mark), 0, 0, 0);
}

/* Simulated time: seconds since the epoch chosen by the plan, advancing by a fixed step per read. */
static void sim_now(uint64_t *sec, uint64_t *nsec) {
    uint64_t total = clock_step * clock_reads++ + clock_extra;
    *sec = clock_base + total / 1000000000ULL;
    *nsec = total % 1000000000ULL;
    log_mark("T\n");
}

int clock_gettime(clockid_t clk, struct timespec *ts) {
    init_once();
    if (!clock_owned) {
        static int (*real)(clockid_t, struct timespec *) = NULL;
        if (!real) real = (int (*)(clockid_t, struct timespec *))dlsym(RTLD_NEXT, "clock_gettime");
        return real ? real(clk, ts) : -1;
    }
    uint64_t s, n;
    sim_now(&s, &n);
    if (ts) {
        ts->tv_sec = (time_t)s;
        ts->tv_nsec = (long)n;
    }
    return 0;
}

int gettimeofday(struct timeval *tv, void *tz) {
    init_once();
    if (!clock_owned) {
        static int (*real)(struct timeval *, void *) = NULL;
        if (!real) real = (int (*)(struct timeval *, void *))dlsym(RTLD_NEXT, "gettimeofday");
        return real ? real(tv, tz) : -1;
    }
    uint64_t s, n;
    sim_now(&s, &n);
    if (tv) {
        tv->tv_sec = (time_t)s;
        tv->tv_usec = (suseconds_t)(n / 1000);
    }
    return 0;
}

time_t time(time_t *out) {
    init_once();
    if (!clock_owned) {
        static time_t (*real)(time_t *) = NULL;
        if (!real) real = (time_t (*)(time_t *))dlsym(RTLD_NEXT, "time");
        return real ? real(out) : (time_t)-1;
    }
    uint64_t s, n;
    sim_now(&s, &n);
    if (out) *out = (time_t)s;
    return (time_t)s;
}

pid_t getpid(void) {
    init_once();
    if (!fake_pid) {
        static pid_t (*real)(void) = NULL;
        if (!real) real = (pid_t (*)(void))dlsym(RTLD_NEXT, "getpid");
        return real ? real() : -1;
    }
    log_mark("P\n");
    return (pid_t)fake_pid;
}

/* Thread-start stalls: the k-th pthread_create of the process gets a start routine that first
   sleeps for the plan's k-th delay. */
#include <pthread.h>

struct stalled_start {
    void *(*start)(void *);
    void *arg;
    unsigned us;
};

static void *stalled_trampoline(void *p) {
    struct stalled_start s = *(struct stalled_start *)p;
    free(p);
    struct timespec ts = { s.us / 1000000, (long)(s.us % 1000000) * 1000L };
    while (raw6(SYS_nanosleep, (long)&ts, (long)&ts, 0, 0, 0, 0) == -EINTR) {}
    return s.start(s.arg);
}

int pthread_create(pthread_t *thread, const pthread_attr_t *attr, void *(*start)(void *), void *arg) {
    static int (*real)(pthread_t *, const pthread_attr_t *, void *(*)(void *), void *) = NULL;
    if (!real) real = (int (*)(pthread_t *, const pthread_attr_t *, void *(*)(void *), void *))dlsym(RTLD_NEXT, "pthread_create");
    if (!real) return EAGAIN;
    init_once();
    int k = __atomic_fetch_add(&threads_created, 1, __ATOMIC_SEQ_CST);
    int rc;
    struct stalled_start *s = NULL;
    if (k < stall_n && stall_us[k] > 0) s = malloc(sizeof *s);
    if (s) {
        s->start = start; s->arg = arg; s->us = stall_us[k];
        char line[64];
        int n = snprintf(line, sizeof line, "Z %d %u\n", k, stall_us[k]);
        if (n > 0) log_mark(line);
        rc = real(thread, attr, stalled_trampoline, s);
    } else {
        rc = real(thread, attr, start, arg);
    }
    if (rc == 0 && k < linger_n && linger_us[k] > 0) {
        char line[64];
        int n = snprintf(line, sizeof line, "Z %d -%u\n", k, linger_us[k]);
        if (n > 0) log_mark(line);
        struct timespec ts = { linger_us[k] / 1000000, (long)(linger_us[k] % 1000000) * 1000L };
        while (raw6(SYS_nanosleep, (long)&ts, (long)&ts, 0, 0, 0, 0) == -EINTR) {}
    }
    return rc;
}

/* Thread identity: the first thread that asks is <pid>, the next <pid>+1, ... */
#include <sys/syscall.h>
static __thread int tid_index = -1;
static int tid_next = 0;

/* The parent's pid is as arbitrary as the process's own: <pid> - 1 under the simulator. */
pid_t getppid(void) {
    init_once();
    if (!fake_pid) return (pid_t)syscall(SYS_getppid);
    log_mark("P\n");
    return (pid_t)(fake_pid - 1);
}

/* Processor count: the affinity mask a launch sees keeps only its first 1 + key[4] % 8 processors
   (never more than it really has), so std::thread::available_parallelism() and anything sized
   from it is a function of the plan. */
int sched_getaffinity(pid_t pid, size_t size, cpu_set_t *mask) {
    init_once();
    long r = syscall(SYS_sched_getaffinity, pid, size, mask);
    if (r < 0) return -1;
    if ((size_t)r < size) memset((char *)mask + r, 0, size - (size_t)r);
    if (fake_pid && key_len > 4) {
        int want = 1 + key_bytes[4] % 8, seen = 0;
        for (size_t i = 0; i < size * 8; i++) {
            unsigned char *byte = (unsigned char *)mask + i / 8;
            unsigned char bit = (unsigned char)(1u << (i % 8));
            if (*byte & bit) {
                if (seen >= want) *byte &= (unsigned char)~bit;
                else seen++;
            }
        }
    }
    return 0;
}

pid_t gettid(void) {
    init_once();
    if (!fake_pid) return (pid_t)syscall(SYS_gettid);
    if (tid_index < 0) tid_index = __atomic_fetch_add(&tid_next, 1, __ATOMIC_SEQ_CST);
    log_mark("P\n");
    return (pid_t)(fake_pid + tid_index);
}

/* AT_RANDOM: the 16 random bytes the kernel hands every process through the auxiliary vector are
   OS entropy too; a program that asks for them gets bytes derived from the plan's key. */
#include <sys/auxv.h>
unsigned long getauxval(unsigned long type) {
    static unsigned long (*real)(unsigned long) = NULL;
    if (!real) real = (unsigned long (*)(unsigned long))dlsym(RTLD_NEXT, "getauxval");
    init_once();
    if (type == AT_RANDOM && key_len >= 16) {
        static unsigned char at_random[16];
        for (int i = 0; i < 16; i++) at_random[i] = (unsigned char)(key_bytes[i] ^ 0xA5);
        log_mark("P\n");
        return (unsigned long)at_random;
    }
    return real ? real(type) : 0;
}

/* Memory statistics: a process that reads /proc/self/status or /proc/self/statm gets the real
   file with the resident-set figures replaced by the plan's. */
#include <stdarg.h>
#include <sys/syscall.h>
/* (declared above) */

static int memfd_with(const char *data, size_t len) {
    int fd = (int)syscall(SYS_memfd_create, "gramsim-file", 0);
    if (fd < 0) return -1;
    size_t off = 0;
    while (off < len) {
        ssize_t w = (ssize_t)raw6(SYS_write, fd, (long)(data + off), (long)(len - off), 0, 0, 0);
        if (w <= 0) { close(fd); return -1; }
        off += (size_t)w;
    }
    lseek(fd, 0, SEEK_SET);
    return fd;
}

/* Other files through which the machine, not the input, speaks to the process: the kernel's
   random devices (std's fallback when getrandom is unavailable), uptime and load. */
static int simulated_special_file(const char *path) {
    init_once();
    if (key_len < 16) return -1;
    if (!strcmp(path, "/dev/urandom") || !strcmp(path, "/dev/random")) {
        static char stream[65536];
        uint64_t st = tail_state ^ 0x75726e64ULL;
        for (size_t i = 0; i < sizeof stream; i++) stream[i] = (char)(splitmix(&st) & 0xff);
        memcpy(stream, key_bytes, 16);
        log_mark("P\n");
        return memfd_with(stream, sizeof stream);
    }
    if (!strcmp(path, "/proc/sys/kernel/random/uuid") || !strcmp(path, "/proc/sys/kernel/random/boot_id")) {
        /* kernel-made identifiers: entropy again; derived from the key */
        char buf[64];
        const unsigned char *k = key_bytes;
        int n = snprintf(buf, sizeof buf, "%02x%02x%02x%02x-%02x%02x-4%01x%02x-8%01x%02x-%02x%02x%02x%02x%02x%02x\n",
                         k[0], k[1], k[2], k[3], k[4], k[5], k[6] & 15, k[7], k[8] & 15, k[9], k[10], k[11], k[12], k[13], k[14], k[15]);
        log_mark("P\n");
        return memfd_with(buf, (size_t)n);
    }
    if (!strcmp(path, "/proc/uptime")) {
        char buf[96];
        int n = snprintf(buf, sizeof buf, "%llu.%02u %llu.00\n", (unsigned long long)(clock_base % 10000000ULL), (unsigned)(clock_step % 100), (unsigned long long)(clock_base % 777777ULL));
        log_mark("T\n");
        return memfd_with(buf, (size_t)n);
    }
    if (!strcmp(path, "/proc/meminfo")) {
        /* system-wide memory: follows the plan's memory figure (reference 8 MiB resident ->
           "plenty available"; a plan reporting a huge resident set reports little available) */
        unsigned long long total = 64ULL << 20; /* KiB */
        unsigned long long avail = fake_rss_kib > 0 && (unsigned long long)fake_rss_kib < total ? total - (unsigned long long)fake_rss_kib * 16ULL % total : 1024ULL;
        if (fake_rss_kib >= 2000000) avail = 2048ULL;
        char buf[512];
        int n = snprintf(buf, sizeof buf, "MemTotal:       %llu kB\nMemFree:        %llu kB\nMemAvailable:   %llu kB\nBuffers:               0 kB\nCached:                0 kB\nSwapTotal:             0 kB\nSwapFree:              0 kB\n", total, avail, avail);
        log_mark("P\n");
        return memfd_with(buf, (size_t)n);
    }
    if (!strcmp(path, "/proc/loadavg")) {
        char buf[96];
        int n = snprintf(buf, sizeof buf, "%u.%02u 0.50 0.25 1/%ld %ld\n", (unsigned)(key_bytes[0] % 16), (unsigned)(key_bytes[1] % 100), 100 + (long)(key_bytes[2]), fake_pid ? fake_pid : 4242L);
        log_mark("P\n");
        return memfd_with(buf, (size_t)n);
    }
    return -1;
}

static int patched_proc_file(const char *path) {
    init_once();
    if (fake_rss_kib <= 0) return -1;
    int is_status = !strcmp(path, "/proc/self/status");
    int is_statm = !strcmp(path, "/proc/self/statm");
    int is_stat = !strcmp(path, "/proc/self/stat") || !strcmp(path, "/proc/thread-self/stat");
    if (!is_status && !is_statm && !is_stat) return -1;
    int real = (int)syscall(SYS_openat, AT_FDCWD, path, O_RDONLY | O_CLOEXEC, 0);
    if (real < 0) return -1;
    static char in[16384], out[20000];
    ssize_t n = (ssize_t)raw6(SYS_read, real, (long)in, (long)(sizeof in - 1), 0, 0, 0);
    close(real);
    if (n <= 0) return -1;
    in[n] = 0;
    size_t o = 0;
    if (is_stat) {
        /* pid (comm) state ppid ... utime stime ...: the process's identity and the CPU time the
           kernel has accounted to it are the machine's; they follow the plan (CPU time in ticks =
           the clock plan's step in milliseconds) */
        char *close_paren = strrchr(in, ')');
        if (!close_paren) return -1;
        o = (size_t)snprintf(out, sizeof out, "%ld (gram)", fake_pid ? fake_pid : 4242L);
        char *tok = strtok(close_paren + 1, " \n");
        int field = 3;
        static unsigned long long stat_reads = 0;
        unsigned long long ticks = (clock_owned ? clock_step / 1000000ULL : 1ULL) * (++stat_reads);
        while (tok && o + 64 < sizeof out) {
            if (field == 4) o += (size_t)snprintf(out + o, sizeof out - o, " %ld", (fake_pid ? fake_pid : 4242L) - 1);
            else if (field == 14 || field == 15) o += (size_t)snprintf(out + o, sizeof out - o, " %llu", ticks);
            else o += (size_t)snprintf(out + o, sizeof out - o, " %s", tok);
            tok = strtok(NULL, " \n");
            field++;
        }
        out[o++] = '\n';
    } else if (is_statm) {
        /* size resident shared text lib data dt (pages) */
        unsigned long f[7] = {0};
        sscanf(in, "%lu %lu %lu %lu %lu %lu %lu", &f[0], &f[1], &f[2], &f[3], &f[4], &f[5], &f[6]);
        f[1] = (unsigned long)fake_rss_kib / 4;
        if (f[0] < f[1]) f[0] = f[1] + 1024;
        o = (size_t)snprintf(out, sizeof out, "%lu %lu %lu %lu %lu %lu %lu\n", f[0], f[1], f[2], f[3], f[4], f[5], f[6]);
    } else {
        char *line = in;
        while (line && *line && o + 256 < sizeof out) {
            char *nl = strchr(line, '\n');
            size_t len = nl ? (size_t)(nl - line) : strlen(line);
            if (!strncmp(line, "VmRSS:", 6) || !strncmp(line, "VmHWM:", 6) || !strncmp(line, "RssAnon:", 8)) {
                size_t k = (size_t)(strchr(line, ':') - line) + 1;
                memcpy(out + o, line, k);
                o += k;
                o += (size_t)snprintf(out + o, sizeof out - o, "\t%8ld kB", fake_rss_kib);
            } else {
                memcpy(out + o, line, len);
                o += len;
            }
            out[o++] = '\n';
            line = nl ? nl + 1 : NULL;
        }
    }
    int fd = (int)syscall(SYS_memfd_create, "gramsim-proc", 0);
    if (fd < 0) return -1;
    if (raw6(SYS_write, fd, (long)out, (long)o, 0, 0, 0) != (long)o) { close(fd); return -1; }
    lseek(fd, 0, SEEK_SET);
    log_mark("P\n");
    return fd;
}

int open64(const char *path, int flags, ...) {
    mode_t mode = 0;
    if (flags & (O_CREAT | O_TMPFILE)) { va_list ap; va_start(ap, flags); mode = va_arg(ap, mode_t); va_end(ap); }
    if (path && (!strncmp(path, "/proc/self/stat", 15) || !strcmp(path, "/proc/thread-self/stat"))) {
        int fd = patched_proc_file(path);
        if (fd >= 0) return fd;
    }
    if (path && (!strncmp(path, "/dev/", 5) || !strncmp(path, "/proc/", 6))) {
        int fd = simulated_special_file(path);
        if (fd >= 0) return fd;
    }
    if (ready && (flags & O_CREAT)) durable_op("create");
    return (int)syscall(SYS_openat, AT_FDCWD, path, flags | O_LARGEFILE, mode);
}

int open(const char *path, int flags, ...) {
    mode_t mode = 0;
    if (flags & (O_CREAT | O_TMPFILE)) { va_list ap; va_start(ap, flags); mode = va_arg(ap, mode_t); va_end(ap); }
    if (path && (!strncmp(path, "/proc/self/stat", 15) || !strcmp(path, "/proc/thread-self/stat"))) {
        int fd = patched_proc_file(path);
        if (fd >= 0) return fd;
    }
    if (path && (!strncmp(path, "/dev/", 5) || !strncmp(path, "/proc/", 6))) {
        int fd = simulated_special_file(path);
        if (fd >= 0) return fd;
    }
    if (ready && (flags & O_CREAT)) durable_op("create");
    return (int)syscall(SYS_openat, AT_FDCWD, path, flags, mode);
}

/* Resource accounting and machine-wide figures that reach a process through libc calls rather
   than files: getrusage (peak resident set - which on Linux survives exec, so it is the
   *launcher's* - CPU time, page faults, context switches), times, clock, sysinfo, sched_getcpu.
   All follow the plan: memory figures follow GRAMSIM_RSS, CPU time advances with every reading at
   the clock plan's rate (as /proc/self/stat does), counters and the processor number come from
   the key. (S68) */
#include <sys/resource.h>
#include <sys/times.h>
#include <sys/sysinfo.h>

static unsigned long long cpu_elapsed_ns(void) {
    unsigned long long step = clock_owned ? clock_step : 1000000ULL;
    return step * (++cpu_readings);
}

int getrusage(int who, struct rusage *ru) {
    init_once();
    long r = syscall(SYS_getrusage, who, ru);
    if (r != 0 || !ru || !fake_pid) return (int)r;
    unsigned long long ns = cpu_elapsed_ns();
    ru->ru_utime.tv_sec = (time_t)(ns / 1000000000ULL);
    ru->ru_utime.tv_usec = (suseconds_t)(ns % 1000000000ULL / 1000ULL);
    ru->ru_stime = ru->ru_utime;
    if (fake_rss_kib > 0) ru->ru_maxrss = fake_rss_kib;
    if (key_len >= 16) {
        ru->ru_minflt = 100 + 37L * key_bytes[6];
        ru->ru_majflt = key_bytes[7] % 4;
        ru->ru_nvcsw = key_bytes[8];
        ru->ru_nivcsw = key_bytes[9];
        ru->ru_inblock = 8L * (key_bytes[10] % 8);
        ru->ru_oublock = 0;
    }
    log_mark("P\n");
    return 0;
}

clock_t times(struct tms *buf) {
    init_once();
    if (!fake_pid) return (clock_t)syscall(SYS_times, buf);
    unsigned long long ticks = cpu_elapsed_ns() / 10000000ULL;
    if (buf) {
        buf->tms_utime = (clock_t)ticks;
        buf->tms_stime = (clock_t)ticks;
        buf->tms_cutime = 0;
        buf->tms_cstime = 0;
    }
    log_mark("T\n");
    return (clock_t)((clock_owned ? clock_base % 10000000ULL : 1000ULL) * 100ULL + ticks);
}

clock_t clock(void) {
    init_once();
    if (!fake_pid) {
        struct timespec ts;
        if (syscall(SYS_clock_gettime, CLOCK_PROCESS_CPUTIME_ID, &ts) != 0) return (clock_t)-1;
        return (clock_t)(ts.tv_sec * 1000000L + ts.tv_nsec / 1000L);
    }
    log_mark("T\n");
    return (clock_t)(cpu_elapsed_ns() / 1000ULL);
}

int sysinfo(struct sysinfo *info) {
    init_once();
    long r = syscall(SYS_sysinfo, info);
    if (r != 0 || !info || !fake_pid) return (int)r;
    unsigned long unit = info->mem_unit ? info->mem_unit : 1;
    unsigned long long total_kib = 64ULL << 20;
    unsigned long long avail_kib = fake_rss_kib > 0 && (unsigned long long)fake_rss_kib < total_kib ? total_kib - (unsigned long long)fake_rss_kib * 16ULL % total_kib : 1024ULL;
    if (fake_rss_kib >= 2000000) avail_kib = 2048ULL;
    info->uptime = (long)(clock_owned ? clock_base % 10000000ULL : 1000ULL);
    info->totalram = (unsigned long)(total_kib * 1024ULL / unit);
    info->freeram = (unsigned long)(avail_kib * 1024ULL / unit);
    info->bufferram = 0;
    info->sharedram = 0;
    info->totalswap = 0;
    info->freeswap = 0;
    if (key_len >= 16) {
        info->loads[0] = (unsigned long)(key_bytes[0] % 16) << 16;
        info->loads[1] = 1UL << 15;
        info->loads[2] = 1UL << 14;
        info->procs = (unsigned short)(100 + key_bytes[2]);
    }
    log_mark("P\n");
    return 0;
}

int sched_getcpu(void) {
    init_once();
    if (!fake_pid || key_len < 16) {
        unsigned cpu = 0;
        if (syscall(SYS_getcpu, &cpu, NULL, NULL) != 0) return -1;
        return (int)cpu;
    }
    log_mark("P\n");
    return key_bytes[5] % 16;
}

/* ---- Timed waits and sleeps (S71) ------------------------------------------------------------
   How long a timed wait really lasts is the scheduler's business, not the input's: a thread that
   asks to wait at most 40 ms may be descheduled for all of it, or the machine may be idle. Under
   the simulator a timed wait or a sleep lasts wait_ppm millionths of what was asked (0: it
   expires at once; 1000000: faithful). Absolute deadlines are read against the *simulated* clock,
   which is the clock the program computed them from. Rust's std parks threads, waits on Condvars
   and receives with a timeout through libc's `syscall(SYS_futex, ...)`, which is why `syscall`
   itself is interposed. */
#include <linux/futex.h>

static void sim_peek(uint64_t *sec, uint64_t *nsec) {
    uint64_t total = clock_step * clock_reads + clock_extra;
    *sec = clock_base + total / 1000000000ULL;
    *nsec = total % 1000000000ULL;
}

/* the plan's share of a requested duration, in nanoseconds (capped at 30 s) */
static uint64_t scaled_ns(uint64_t ns) {
    if (wait_ppm == 1000000) return ns;
    __uint128_t v = (__uint128_t)ns * (uint64_t)wait_ppm / 1000000ULL;
    if (v > 30000000000ULL) v = 30000000000ULL;
    return (uint64_t)v;
}

static uint64_t rel_from_abs(const struct timespec *abs) {
    uint64_t s, n;
    sim_peek(&s, &n);
    if ((uint64_t)abs->tv_sec < s || ((uint64_t)abs->tv_sec == s && (uint64_t)abs->tv_nsec <= n)) return 0;
    uint64_t ds = (uint64_t)abs->tv_sec - s;
    if (ds > 4000000000ULL) ds = 4000000000ULL;
    return ds * 1000000000ULL + (uint64_t)abs->tv_nsec - n;
}

static int timed_waits_owned(void) { return clock_owned && fake_pid; }

static int do_sleep_ns(uint64_t ns) {
    if (ns == 0) return 0;
    struct timespec ts = { (time_t)(ns / 1000000000ULL), (long)(ns % 1000000000ULL) };
    long r;
    while ((r = raw6(SYS_nanosleep, (long)&ts, (long)&ts, 0, 0, 0, 0)) == -EINTR) {}
    return 0;
}

int nanosleep(const struct timespec *req, struct timespec *rem) {
    init_once();
    if (!timed_waits_owned() || !req) {
        long r = raw6(SYS_nanosleep, (long)req, (long)rem, 0, 0, 0, 0);
        if (r < 0) { errno = (int)-r; return -1; }
        return 0;
    }
    log_mark("W\n");
    if (rem) { rem->tv_sec = 0; rem->tv_nsec = 0; }
    uint64_t asked = (uint64_t)req->tv_sec * 1000000000ULL + (uint64_t)req->tv_nsec;
    do_sleep_ns(scaled_ns(asked));
    __atomic_fetch_add(&clock_extra, asked, __ATOMIC_SEQ_CST); /* the time asked for has passed */
    return 0;
}

int clock_nanosleep(clockid_t clk, int flags, const struct timespec *req, struct timespec *rem) {
    init_once();
    if (!timed_waits_owned() || !req) {
        long r = raw6(SYS_clock_nanosleep, clk, flags, (long)req, (long)rem, 0, 0);
        return r < 0 ? (int)-r : 0;
    }
    log_mark("W\n");
    uint64_t ns = (flags & TIMER_ABSTIME) ? rel_from_abs(req) : (uint64_t)req->tv_sec * 1000000000ULL + (uint64_t)req->tv_nsec;
    if (rem) { rem->tv_sec = 0; rem->tv_nsec = 0; }
    do_sleep_ns(scaled_ns(ns));
    __atomic_fetch_add(&clock_extra, ns, __ATOMIC_SEQ_CST);
    return 0;
}

int usleep(useconds_t us) {
    struct timespec ts = { us / 1000000, (long)(us % 1000000) * 1000L };
    return nanosleep(&ts, NULL);
}

unsigned int sleep(unsigned int seconds) {
    struct timespec ts = { seconds, 0 };
    nanosleep(&ts, NULL);
    return 0;
}

long syscall(long number, ...) {
    va_list ap;
    va_start(ap, number);
    long a = va_arg(ap, long), b = va_arg(ap, long), c = va_arg(ap, long);
    long d = va_arg(ap, long), e = va_arg(ap, long), f = va_arg(ap, long);
    va_end(ap);
    if (number == SYS_futex && d != 0 && ready && timed_waits_owned()) {
        int cmd = (int)b & 0x7f; /* without FUTEX_PRIVATE_FLAG (128); FUTEX_CLOCK_REALTIME is 256 */
        const struct timespec *to = (const struct timespec *)d;
        if (cmd == FUTEX_WAIT || cmd == FUTEX_WAIT_BITSET) {
            uint64_t ns = cmd == FUTEX_WAIT ? (uint64_t)to->tv_sec * 1000000000ULL + (uint64_t)to->tv_nsec : rel_from_abs(to);
            uint64_t asked = ns;
            ns = scaled_ns(ns);
            /* wait relative to now, for the plan's share of the time that was left */
            struct timespec rel = { (time_t)(ns / 1000000000ULL), (long)(ns % 1000000000ULL) };
            long op = (b & ~0x7fL & ~256L) | FUTEX_WAIT; /* relative timeout, CLOCK_MONOTONIC */
            log_mark("W\n");
            long r = raw6(SYS_futex, a, op, c, (long)&rel, 0, 0);
            /* a wait that ran out: the whole time asked for has passed on the simulated clock */
            if (r == -ETIMEDOUT) __atomic_fetch_add(&clock_extra, asked, __ATOMIC_SEQ_CST);
            if (r < 0) { errno = (int)-r; return -1; }
            return r;
        }
    }
    long r = raw6(number, a, b, c, d, e, f);
    if (r < 0 && r > -4096) { errno = (int)-r; return -1; }
    return r;
}

/* ---- Interval timers --------------------------------------------------------------------------
   alarm, setitimer and timer_settime ask the kernel for a signal after some time; when that
   signal arrives relative to the program's progress is the machine's business. Under the
   simulator the interval lasts wait_ppm millionths of what was asked (at least one microsecond:
   a zero would disarm the timer). CPU-time timers (ITIMER_VIRTUAL / ITIMER_PROF) are scaled the
   same way. */
static void scale_timeval(const struct timeval *in, struct timeval *out) {
    uint64_t ns = (uint64_t)in->tv_sec * 1000000000ULL + (uint64_t)in->tv_usec * 1000ULL;
    if (ns == 0) { out->tv_sec = 0; out->tv_usec = 0; return; }
    ns = scaled_ns(ns);
    if (ns < 1000) ns = 1000;
    out->tv_sec = (time_t)(ns / 1000000000ULL);
    out->tv_usec = (suseconds_t)(ns % 1000000000ULL / 1000ULL);
}

int setitimer(__itimer_which_t which, const struct itimerval *restrict new_value, struct itimerval *restrict old_value) {
    init_once();
    struct itimerval scaled;
    const struct itimerval *use = new_value;
    if (new_value && timed_waits_owned() && wait_ppm != 1000000) {
        scale_timeval(&new_value->it_value, &scaled.it_value);
        scale_timeval(&new_value->it_interval, &scaled.it_interval);
        use = &scaled;
    }
    if (new_value && timed_waits_owned()) log_mark("W\n");
    long r = raw6(SYS_setitimer, which, (long)use, (long)old_value, 0, 0, 0);
    if (r < 0) { errno = (int)-r; return -1; }
    return 0;
}

unsigned int alarm(unsigned int seconds) {
    struct itimerval nv = { {0, 0}, {(time_t)seconds, 0} }, ov = { {0, 0}, {0, 0} };
    if (setitimer(ITIMER_REAL, &nv, &ov) != 0) return 0;
    return (unsigned int)(ov.it_value.tv_sec + (ov.it_value.tv_usec >= 500000 ? 1 : 0));
}

#include <signal.h>
int timer_settime(timer_t timerid, int flags, const struct itimerspec *new_value, struct itimerspec *old_value) {
    static int (*real)(timer_t, int, const struct itimerspec *, struct itimerspec *) = NULL;
    if (!real) real = (int (*)(timer_t, int, const struct itimerspec *, struct itimerspec *))dlsym(RTLD_NEXT, "timer_settime");
    if (!real) { errno = ENOSYS; return -1; }
    init_once();
    struct itimerspec scaled;
    if (new_value && timed_waits_owned()) {
        log_mark("W\n");
        uint64_t v = (flags & TIMER_ABSTIME) ? rel_from_abs(&new_value->it_value)
                                             : (uint64_t)new_value->it_value.tv_sec * 1000000000ULL + (uint64_t)new_value->it_value.tv_nsec;
        uint64_t i = (uint64_t)new_value->it_interval.tv_sec * 1000000000ULL + (uint64_t)new_value->it_interval.tv_nsec;
        int armed = new_value->it_value.tv_sec != 0 || new_value->it_value.tv_nsec != 0;
        v = scaled_ns(v); i = i ? scaled_ns(i) : 0;
        if (armed && v < 1000) v = 1000;
        if (i && i < 1000) i = 1000;
        scaled.it_value.tv_sec = (time_t)(v / 1000000000ULL); scaled.it_value.tv_nsec = (long)(v % 1000000000ULL);
        scaled.it_interval.tv_sec = (time_t)(i / 1000000000ULL); scaled.it_interval.tv_nsec = (long)(i % 1000000000ULL);
        if (!armed) { scaled.it_value.tv_sec = 0; scaled.it_value.tv_nsec = 0; }
        return real(timerid, flags & ~TIMER_ABSTIME, &scaled, old_value);
    }
    return real(timerid, flags, new_value, old_value);
}

/* ---- Crash points -----------------------------------------------------------------------------
   A launch can be killed at any moment (Ctrl-C, the OOM killer, power loss); only what it had
   made durable by then survives. Under the simulator a launch that has a crash point dies by
   SIGKILL at its crash_at-th durable-state operation: a write to a regular file other than its
   standard streams (torn: half of the bytes are written first), the creation of a file, a
   rename, an unlink, a mkdir or an fsync. gram itself performs none of these, so on the
   unchanged tree a crash point never fires. */
/* A stalled process: at its pause_at-th durable-state operation the process says so (marker file)
   and stands still for pause_ms of real time, holding whatever it holds (a lock, a half-written
   record), while the simulator runs another launch of the same command next to it. */
static void stall_here(const char *what) {
    char line[64];
    int n = snprintf(line, sizeof line, "H %ld %s\n", durable_ops, what);
    if (n > 0) log_mark(line);
    if (pause_marker[0]) {
        int fd = (int)raw6(SYS_openat, AT_FDCWD, (long)pause_marker, O_WRONLY | O_CREAT, 0644, 0, 0);
        if (fd >= 0) raw6(SYS_close, fd, 0, 0, 0, 0, 0);
    }
    struct timespec ts = { pause_ms / 1000, (pause_ms % 1000) * 1000000L };
    while (raw6(SYS_nanosleep, (long)&ts, (long)&ts, 0, 0, 0, 0) == -EINTR) {}
}

static void durable_op(const char *what) {
    if ((!crash_at && !pause_at) || !fake_pid) return;
    long k = __atomic_add_fetch(&durable_ops, 1, __ATOMIC_SEQ_CST);
    if (pause_at && k == pause_at) { stall_here(what); return; }
    if (k == crash_at) {
        char line[64];
        int n = snprintf(line, sizeof line, "K %ld %s\n", k, what);
        if (n > 0) log_mark(line);
        raw6(SYS_kill, raw6(SYS_getpid, 0, 0, 0, 0, 0, 0), SIGKILL, 0, 0, 0, 0);
        for (;;) raw6(SYS_pause, 0, 0, 0, 0, 0, 0);
    }
}

ssize_t write(int fd, const void *buf, size_t count) {
    if (ready && (crash_at || pause_at) && fd > 2 && fd != log_fd && count > 0) {
        struct stat st;
        if (raw6(SYS_fstat, fd, (long)&st, 0, 0, 0, 0) == 0 && S_ISREG(st.st_mode)) {
            if (crash_at && durable_ops + 1 == crash_at && count > 1) raw6(SYS_write, fd, (long)buf, (long)(count / 2), 0, 0, 0); /* torn */
            if (pause_at && durable_ops + 1 == pause_at && count > 1) {
                /* the first half is visible to others while this process stands still */
                long half = raw6(SYS_write, fd, (long)buf, (long)(count / 2), 0, 0, 0);
                durable_op("write");
                if (half > 0) { buf = (const char *)buf + half; count -= (size_t)half; }
                long r2 = raw6(SYS_write, fd, (long)buf, (long)count, 0, 0, 0);
                if (r2 < 0) { errno = (int)-r2; return -1; }
                return (ssize_t)(r2 + (half > 0 ? half : 0));
            }
            durable_op("write");
        }
    }
    long r = raw6(SYS_write, fd, (long)buf, (long)count, 0, 0, 0);
    if (r < 0) { errno = (int)-r; return -1; }
    return (ssize_t)r;
}

int rename(const char *from, const char *to) {
    if (ready) durable_op("rename");
    long r = raw6(SYS_rename, (long)from, (long)to, 0, 0, 0, 0);
    if (r < 0) { errno = (int)-r; return -1; }
    return 0;
}

int unlink(const char *path) {
    if (ready) durable_op("unlink");
    long r = raw6(SYS_unlink, (long)path, 0, 0, 0, 0, 0);
    if (r < 0) { errno = (int)-r; return -1; }
    return 0;
}

int mkdir(const char *path, mode_t mode) {
    if (ready) durable_op("mkdir");
    long r = raw6(SYS_mkdir, (long)path, (long)mode, 0, 0, 0, 0);
    if (r < 0) { errno = (int)-r; return -1; }
    return 0;
}

#include <sys/file.h>
int flock(int fd, int op) {
    long r = raw6(SYS_flock, fd, op, 0, 0, 0, 0);
    if (r < 0) { errno = (int)-r; return -1; }
    if (ready && (op & (LOCK_EX | LOCK_SH))) durable_op("lock"); /* stalls while holding the lock */
    return 0;
}

int fsync(int fd) {
    if (ready) durable_op("fsync");
    long r = raw6(SYS_fsync, fd, 0, 0, 0, 0, 0);
    if (r < 0) { errno = (int)-r; return -1; }
    return 0;
}

/* ---- Short reads (files) ----------------------------------------------------------------------
   read(2) may always return fewer bytes than asked, and may fail with EINTR before any byte is
   transferred. Under the simulator reads of regular files deliver 1..read_chunk bytes per call
   (sizes drawn from the key) and the first read_eintr of them are interrupted. */
ssize_t read(int fd, void *buf, size_t count) {
    static long reads_cut = 0; /* a launch gets at most 2000 shortened reads; then the rest of the file comes at once */
    if (ready && read_chunk > 0 && count > 0 && fake_pid && reads_cut < 2000) {
        struct stat st;
        if (raw6(SYS_fstat, fd, (long)&st, 0, 0, 0, 0) == 0 && S_ISREG(st.st_mode)) {
            if (read_eintr > 0) {
                read_eintr--;
                log_mark("R\n");
                errno = EINTR;
                return -1;
            }
            if (!read_state) read_state = tail_state ^ 0x72656164ULL;
            size_t want = 1 + (size_t)(splitmix(&read_state) % (uint64_t)read_chunk);
            if (want < count) { count = want; reads_cut++; log_mark("R\n"); }
        }
    }
    long r = raw6(SYS_read, fd, (long)buf, (long)count, 0, 0, 0);
    if (r < 0) { errno = (int)-r; return -1; }
    return (ssize_t)r;
}

/* Cycle counter (RDTSC): not owned. prctl(PR_SET_TSC, PR_TSC_SIGSEGV) is accepted in this VM but
   the instruction does not trap afterwards (tried; the hypervisor does not honour CR4.TSD), so
   there is nothing to emulate from. See DESIGN.md, section 9. */
