// Canary for the entropy seam: prints the iteration order of small HashSets.
// Launched through exactly the same seam as gram.  If its output does not vary
// with the key handed to getrandom, interposition is dead and any "everything
// is deterministic" verdict would be worthless.
use std::collections::HashSet;

extern "C" {
    fn gettid() -> i32;
    fn getrusage(who: i32, usage: *mut [i64; 18]) -> i32;
}

fn main() {
    let mut out = String::new();
    for n in 2..=6usize {
        let set: HashSet<usize> = (0..n).collect();
        let order: Vec<String> = set.iter().map(|x| x.to_string()).collect();
        out.push_str(&order.join(","));
        out.push(';');
    }
    // A heap pointer and a stack pointer, so that the layout seam can be seen to act.
    let boxed = Box::new(0u8);
    let local = 0u8;
    // Wall clock, monotonic clock and pid, so that those seams can be seen to act too.
    let wall = std::time::SystemTime::now()
        .duration_since(std::time::UNIX_EPOCH)
        .map(|d| d.as_secs())
        .unwrap_or(0);
    let t0 = std::time::Instant::now();
    let dt = t0.elapsed().as_nanos();
    println!(
        "{} heap={:p} stack={:p} wall={} dt={} pid={} tid={} {} urandom={} cpus={} maxrss={} slept_ms={} waited_ms={}",
        out,
        &*boxed,
        &local,
        wall,
        dt,
        std::process::id(),
        unsafe { gettid() },
        std::fs::read_to_string("/proc/self/status")
            .ok()
            .and_then(|s| s.lines().find(|l| l.starts_with("VmRSS:")).map(|l| l.split_whitespace().collect::<Vec<_>>().join("=")))
            .unwrap_or_default(),
        {
            use std::io::Read;
            let mut b = [0u8; 4];
            std::fs::File::open("/dev/urandom").and_then(|mut f| f.read_exact(&mut b)).map(|()| format!("{:02x}{:02x}{:02x}{:02x}", b[0], b[1], b[2], b[3])).unwrap_or_default()
        },
        std::thread::available_parallelism().map_or(0, std::num::NonZero::get),
        {
            let mut ru = [0i64; 18];
            if unsafe { getrusage(0, &mut ru) } == 0 { ru[4] } else { -1 }
        },
        {
            // a sleep must move the simulated clock by the time asked for
            let t = std::time::Instant::now();
            std::thread::sleep(std::time::Duration::from_millis(50));
            t.elapsed().as_millis()
        },
        {
            // and so must a timed wait that runs out (futex with a time-out)
            let (_tx, rx) = std::sync::mpsc::channel::<u8>();
            let t = std::time::Instant::now();
            let _ = rx.recv_timeout(std::time::Duration::from_millis(30));
            t.elapsed().as_millis()
        }
    );
}
