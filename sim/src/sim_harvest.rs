//! W1: programs harvested from the working tree at run time — the string literals bound to
//! `source…` variables in the repository's own test modules (one per construct and per
//! diagnostic its authors thought of) and `examples/*.g`. Tracks the tree by construction.

use std::fs;
use std::path::Path;

/// Decode a Rust (non-raw) string literal body starting right after the opening quote.
/// Returns the decoded string and the index after the closing quote.
fn decode_literal(chars: &[char], mut i: usize) -> Option<(String, usize)> {
    let mut out = String::new();
    while i < chars.len() {
        let c = chars[i];
        match c {
            '"' => return Some((out, i + 1)),
            '\\' => {
                i += 1;
                let e = *chars.get(i)?;
                match e {
                    'n' => out.push('\n'),
                    't' => out.push('\t'),
                    'r' => out.push('\r'),
                    '0' => out.push('\0'),
                    '\\' => out.push('\\'),
                    '"' => out.push('"'),
                    '\'' => out.push('\''),
                    'x' => {
                        let h: String = chars.get(i + 1..i + 3)?.iter().collect();
                        out.push(char::from(u8::from_str_radix(&h, 16).ok()?));
                        i += 2;
                    }
                    'u' => {
                        // \u{…}
                        if *chars.get(i + 1)? != '{' {
                            return None;
                        }
                        let mut j = i + 2;
                        let mut h = String::new();
                        while *chars.get(j)? != '}' {
                            if chars[j] != '_' {
                                h.push(chars[j]);
                            }
                            j += 1;
                        }
                        out.push(char::from_u32(u32::from_str_radix(&h, 16).ok()?)?);
                        i = j;
                    }
                    '\n' => {
                        // line continuation: skip the newline and leading whitespace
                        while chars.get(i + 1).is_some_and(|c| c.is_whitespace()) {
                            i += 1;
                        }
                    }
                    _ => return None,
                }
                i += 1;
            }
            _ => {
                out.push(c);
                i += 1;
            }
        }
    }
    None
}

fn harvest_rust(text: &str, out: &mut Vec<String>) {
    let chars: Vec<char> = text.chars().collect();
    let n = chars.len();
    let mut i = 0;
    while i + 4 < n {
        // look for `let ` at a word boundary
        if chars[i] == 'l'
            && chars[i + 1] == 'e'
            && chars[i + 2] == 't'
            && chars[i + 3] == ' '
            && (i == 0 || !(chars[i - 1].is_alphanumeric() || chars[i - 1] == '_'))
        {
            let mut j = i + 4;
            let start = j;
            while j < n && (chars[j].is_alphanumeric() || chars[j] == '_') {
                j += 1;
            }
            let name: String = chars[start..j].iter().collect();
            if name.contains("source") {
                // skip ` = ` (allow whitespace / newline)
                while j < n && chars[j].is_whitespace() {
                    j += 1;
                }
                if j < n && chars[j] == '=' {
                    j += 1;
                    while j < n && chars[j].is_whitespace() {
                        j += 1;
                    }
                    if j < n && chars[j] == '"' {
                        if let Some((lit, end)) = decode_literal(&chars, j + 1) {
                            out.push(lit);
                            i = end;
                            continue;
                        }
                    }
                }
            }
            i = j.max(i + 1);
        } else {
            i += 1;
        }
    }
}

/// Sorted, de-duplicated corpus. Directory listings are sorted, so the result is a function of
/// the tree's contents only.
pub fn harvest(repo: &Path) -> Vec<String> {
    let mut out = vec![];
    let mut push_dir = |dir: &Path, ext: &str, rust: bool, out: &mut Vec<String>| {
        let Ok(rd) = fs::read_dir(dir) else { return };
        let mut files: Vec<_> = rd.filter_map(Result::ok).map(|e| e.path()).collect();
        files.sort();
        for f in files {
            if f.extension().and_then(|e| e.to_str()) != Some(ext) {
                continue;
            }
            if let Ok(text) = fs::read_to_string(&f) {
                if rust {
                    harvest_rust(&text, out);
                } else {
                    out.push(text);
                }
            }
        }
    };
    push_dir(&repo.join("src"), "rs", true, &mut out);
    push_dir(&repo.join("examples"), "g", false, &mut out);
    out.sort();
    out.dedup();
    out
}
