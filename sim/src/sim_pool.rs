//! Worker processes as seen from the driver: request/reply with a wall-clock watchdog.
//! The watchdog is the only place the harness reads a real clock for a decision, and the only
//! decision it can make is to discard a group.

use crate::sim_args::Args;
use serde_json::Value;
use std::io::{BufRead, BufReader, Write};
use std::os::unix::process::{CommandExt, ExitStatusExt};
use std::process::{Child, ChildStdin, Command, Stdio};
use std::sync::mpsc::{Receiver, RecvTimeoutError, channel};
use std::time::Duration;

pub enum Reply {
    Ok(Value),
    TimedOut,
    Died(String),
}

pub struct WorkerProc {
    child: Child,
    stdin: Option<ChildStdin>,
    rx: Receiver<String>,
}

impl WorkerProc {
    pub fn spawn(args: &Args) -> Result<WorkerProc, String> {
        let exe = std::env::current_exe().map_err(|e| format!("current_exe: {e}"))?;
        let mut cmd = Command::new(exe);
        cmd.args(args.worker_argv())
            .stdin(Stdio::piped())
            .stdout(Stdio::piped())
            .stderr(if std::env::var_os("GRAMSIM_DEBUG").is_some() { Stdio::inherit() } else { Stdio::null() });
        // Layout seam, in-process side: the worker's own address space is not randomised, so the
        // addresses a launch sees are a function of what the worker ran before (and of the
        // plan's displacement), not of the kernel. A fresh worker replaying the same launches
        // sees the same addresses.
        // SAFETY: personality(2) is async-signal-safe.
        unsafe {
            cmd.pre_exec(|| {
                crate::sim_exec::no_aslr();
                Ok(())
            });
        }
        let mut child = cmd.spawn().map_err(|e| format!("spawn worker: {e}"))?;
        let stdin = child.stdin.take();
        let stdout = child.stdout.take().ok_or("no worker stdout")?;
        let (tx, rx) = channel();
        std::thread::spawn(move || {
            let reader = BufReader::new(stdout);
            for line in reader.lines() {
                match line {
                    Ok(l) => {
                        if tx.send(l).is_err() {
                            break;
                        }
                    }
                    Err(_) => break,
                }
            }
        });
        Ok(WorkerProc { child, stdin, rx })
    }

    pub fn request(&mut self, job: &Value, timeout: Duration) -> Reply {
        let Some(stdin) = self.stdin.as_mut() else {
            return Reply::Died("no stdin".to_owned());
        };
        if writeln!(stdin, "{job}").is_err() || stdin.flush().is_err() {
            return Reply::Died(self.reap());
        }
        match self.rx.recv_timeout(timeout) {
            Ok(line) => match serde_json::from_str::<Value>(&line) {
                Ok(v) => Reply::Ok(v),
                Err(e) => Reply::Died(format!("unparsable reply: {e}")),
            },
            Err(RecvTimeoutError::Timeout) => {
                self.kill();
                Reply::TimedOut
            }
            Err(RecvTimeoutError::Disconnected) => Reply::Died(self.reap()),
        }
    }

    fn reap(&mut self) -> String {
        self.stdin = None;
        match self.child.wait() {
            Ok(status) => {
                if let Some(sig) = status.signal() {
                    format!("signal {sig}")
                } else {
                    format!("exit {}", status.code().unwrap_or(-1))
                }
            }
            Err(e) => format!("wait: {e}"),
        }
    }

    pub fn kill(&mut self) {
        self.stdin = None;
        let _ = self.child.kill();
        let _ = self.child.wait();
    }
}

impl Drop for WorkerProc {
    fn drop(&mut self) {
        self.kill();
    }
}
