//! Worker process: runs groups on behalf of the driver, one JSON job line in, one JSON result
//! line out. Simulated launches run real gram code, which may exhaust its stack, abort or spin in
//! a divergent program; a separate process lets the driver observe that from outside, discard the
//! group and carry on.

use crate::sim_args::Args;
use crate::sim_entropy::Plan;
use crate::sim_exec::ExecEnv;
use crate::sim_pool::{Reply, WorkerProc};
use crate::sim_group::{self, Envs, Outcome, Shape, Spec, Tier};
use crate::sim_harvest;
use crate::sim_inproc;
use crate::sim_rng::fnv;
use serde_json::{Value, json};
use std::io::{BufRead, Write};
use std::time::Duration;

pub fn envs_from(args: &Args) -> Envs {
    let mut exec = ExecEnv::new(args.gram.clone(), args.shim.clone(), Duration::from_millis(args.cap_ms), args.mem_cap);
    exec.mask_tid = args.mask_tid;
    Envs {
        exec,
        work: args.work.join(&args.run_id),
        step_budget: args.steps,
    }
}

pub fn outcome_json(spec: &Spec, out: &Outcome, with_obs: bool, with_orders: bool) -> Value {
    let mut fired = std::collections::BTreeMap::<String, u64>::new();
    let mut inert = 0u64;
    let mut clock_reads = 0u64;
    let mut pid_reads = 0u64;
    for (i, log) in out.logs.iter().enumerate() {
        let plan = &spec.plans[i];
        if log.delivered() >= 16 {
            // the reference launch is itself a launch under a fresh key
            let kind = match plan.kind.split(':').next().unwrap_or("entropy_reseed") {
                "reference" => "entropy_reseed",
                "delivery_only" => "same_key_faulty_delivery",
                "layout_only" => "same_key_displaced_layout",
                "identity_only" => "same_key_other_clock_and_pid",
                "repeat_only" => "same_key_repeated_on_thread",
                other => other,
            }
            .to_owned();
            *fired.entry(kind).or_insert(0) += 1;
        } else if spec.source.is_empty() || std::str::from_utf8(&spec.source).is_err() || log.calls.is_empty() {
            inert += 1;
        }
        let short = log.count_short() as u64;
        if short > 0 {
            *fired.entry("getrandom_short".to_owned()).or_insert(0) += short;
        }
        let eintr = log.count_errno(4) as u64;
        if eintr > 0 {
            *fired.entry("getrandom_eintr".to_owned()).or_insert(0) += eintr;
        }
        let einval = log.count_errno(22) as u64;
        if einval > 0 {
            *fired.entry("getrandom_no_insecure".to_owned()).or_insert(0) += einval;
        }
        if log.skewed {
            *fired.entry("layout_skew".to_owned()).or_insert(0) += 1;
        }
        if plan.has_identity_fault() {
            *fired.entry("clock_and_pid_change".to_owned()).or_insert(0) += 1;
        }
        if plan.repeat > 0 {
            *fired.entry("same_thread_repeat".to_owned()).or_insert(0) += 1;
        }
        if log.stalls > 0 {
            *fired.entry("thread_stall".to_owned()).or_insert(0) += log.stalls;
        }
        if log.waits > 0 {
            *fired.entry("timed_wait_scaled".to_owned()).or_insert(0) += log.waits;
        }
        if log.short_reads > 0 {
            *fired.entry("file_short_read".to_owned()).or_insert(0) += log.short_reads;
        }
        clock_reads += log.clock_reads;
        pid_reads += log.pid_reads;
    }
    if out.overlap_faults > 0 {
        *fired.entry("overlapping_launch_stalled".to_owned()).or_insert(0) += out.overlap_faults;
    }
    if out.crash_faults > 0 {
        *fired.entry("history_prior_crash".to_owned()).or_insert(0) += out.crash_faults;
    }
    if out.history_faults > 0 {
        *fired.entry("history_prior_edit".to_owned()).or_insert(0) += out.history_faults;
    }
    let (class, nontrivial) = out
        .obs
        .first()
        .map_or(("none".to_owned(), false), |r| sim_group::classify(spec, r));

    // Event hash: everything the simulator decided and everything it saw, for the determinism
    // self-test. Independent of worker count and of wall-clock time by construction.
    let mut event = fnv(&spec.source);
    event = event.rotate_left(5) ^ fnv(spec.form.name().as_bytes()) ^ fnv(spec.colour.name().as_bytes());
    for (i, obs) in out.obs.iter().enumerate() {
        event = event.rotate_left(9) ^ obs.digest() ^ fnv(spec.plans[i].to_json().to_string().as_bytes());
        // Of the seam's call log only what the plan determines goes in: std remembers per
        // process that GRND_INSECURE was refused, so flags and EINVAL counts depend on which
        // launches a worker process happened to run before.
        let log = &out.logs[i];
        event = event.rotate_left(3)
            ^ (log.delivered() as u64)
            ^ ((log.count_errno(4) as u64) << 20)
            ^ ((log.count_short() as u64) << 40);
    }

    let mut orders: Vec<String> = vec![];
    let mut keys: Vec<String> = vec![];
    if with_orders {
        orders = out.orders.clone();
        orders.sort();
        orders.dedup();
        let mut seen: Vec<[u8; 16]> = vec![];
        for plan in spec.plans.iter().take(out.launches) {
            if !seen.contains(&plan.key) {
                seen.push(plan.key);
                keys.push(plan.key_hex());
            }
        }
    }

    let mut v = json!({
        "tier": spec.tier.name(),
        "family": spec.family,
        "form": spec.form.name(),
        "colour": spec.colour.name(),
        "launcher": if spec.tier == Tier::Exec {
            spec.launcher.as_str()
        } else {
            match (spec.isolation.as_str(), spec.mode == "main" && sim_inproc::real_main_available()) {
                ("process", true) => "process-per-launch:real-main-run",
                ("process", false) => "process-per-launch:stages",
                (_, true) => "thread-per-launch:real-main-run",
                (_, false) => "thread-per-launch:stages",
            }
        },
        "file_hash": format!("{:016x}", fnv(&spec.source)),
        "file_len": spec.source.len(),
        "status": out.status,
        "note": out.note,
        "launches": out.launches,
        "class": class,
        "nontrivial": nontrivial,
        "fired": fired,
        "inert": inert,
        "mirror_mismatches": out.mirror_mismatches,
        "clock_reads": clock_reads,
        "pid_reads": pid_reads,
        "event": format!("{event:016x}"),
        "orders": orders,
        "keys": keys,
        "differing": out.differing,
        "same_signal": out.status == "ok" && out.obs.iter().any(|o| o.abnormal.is_some()),
    });
    if with_obs || out.status == "violation" {
        v["obs"] = Value::Array(out.obs.iter().map(sim_group::LaunchObs::to_json).collect());
        v["spec"] = spec.to_json();
    }
    v
}

pub fn shape_for(args: &Args, tier: Tier) -> Shape {
    Shape {
        plans: match tier {
            Tier::InProc => args.ip_plans,
            Tier::Exec => args.ex_plans,
        },
    }
}

/// Hand a job to the clean sub-worker (started on first use, restarted after a failure).
fn delegate(
    clean: &mut Option<WorkerProc>,
    args: &Args,
    job: &Value,
    timeout: Duration,
) -> Result<Value, (&'static str, String)> {
    if clean.is_none() {
        let mut sub = args.clone();
        sub.role = "clean".to_owned();
        *clean = WorkerProc::spawn(&sub).ok();
    }
    let Some(w) = clean.as_mut() else {
        return Err(("skipped_resource", "could not start the clean sub-worker".to_owned()));
    };
    match w.request(job, timeout) {
        Reply::Ok(v) => Ok(v),
        Reply::TimedOut => {
            *clean = None;
            Err(("skipped_divergent", "group exceeded the wall-clock cap".to_owned()))
        }
        Reply::Died(how) => {
            *clean = None;
            Err(("skipped_resource", format!("clean sub-worker ended: {how}")))
        }
    }
}

/// Record for a group whose process ended without a reply.
pub fn stub_json(spec: &Spec, idx: usize, status: &str, note: &str) -> Value {
    json!({
        "idx": idx,
        "tier": spec.tier.name(),
        "family": spec.family,
        "form": spec.form.name(),
        "colour": spec.colour.name(),
        "launcher": "none",
        "file_hash": format!("{:016x}", fnv(&spec.source)),
        "file_len": spec.source.len(),
        "status": status,
        "note": note,
        "launches": 0,
        "class": "none",
        "nontrivial": false,
        "fired": {},
        "inert": 0,
        "event": "0",
        "orders": [],
        "keys": [],
    })
}

pub fn worker_main(args: &Args) -> i32 {
    // Panics of gram code inside launch threads are observations, not noise for our stderr.
    std::panic::set_hook(Box::new(|_| {}));
    let corpus = sim_harvest::harvest(&args.repo);
    let envs = envs_from(args);
    let stdin = std::io::stdin();
    // Replies go to a private duplicate of fd 1; fd 1 and fd 2 themselves are pointed at
    // /dev/null so that they can be redirected to capture files while gram's `run` prints.
    let Some(mut reply_channel) = sim_inproc::detach_stdout() else {
        return 2;
    };
    let mut clean: Option<WorkerProc> = None;
    for line in stdin.lock().lines() {
        let Ok(line) = line else { break };
        if line.trim().is_empty() {
            continue;
        }
        let Ok(job) = serde_json::from_str::<Value>(&line) else {
            continue;
        };
        let reply = match job.get("job").and_then(Value::as_str) {
            Some("group") => {
                let tier = Tier::from_name(job.get("tier").and_then(Value::as_str).unwrap_or("inproc"));
                let idx = job.get("idx").and_then(Value::as_u64).unwrap_or(0) as usize;
                let tag = format!("{}-g{}", tier.name(), idx);
                let t0 = std::time::Instant::now();
                if tier == Tier::Exec && idx < 3 && job.get("no_probe").is_none() {
                    // the first three exec groups of every run are the stack-boundary probes
                    let (spec, out) = sim_group::stack_boundary_probe(args.seed, idx, &envs, &tag);
                    let mut v = outcome_json(&spec, &out, false, true);
                    v["idx"] = json!(idx);
                    v["wall_ms"] = json!(t0.elapsed().as_millis() as u64);
                    if writeln!(reply_channel, "{v}").is_err() || reply_channel.flush().is_err() {
                        break;
                    }
                    continue;
                }
                let mut spec = sim_group::derive_spec(args.seed, tier, idx, &corpus, shape_for(args, tier));
                if job.get("isolation").and_then(Value::as_str) == Some("process") && tier == Tier::InProc {
                    // second chance for a group whose launches took the worker down: every launch
                    // in a process of its own, so that the crash is one observation among others,
                    // and more launches than usual (an ending that shows in one launch in ten is
                    // otherwise likely to be missed among the crashes)
                    spec = sim_group::derive_spec(args.seed, tier, idx, &corpus, sim_group::Shape { plans: 24 });
                    spec.isolation = "process".to_owned();
                }
                let run = || {
                    let out = sim_group::run_spec(&spec, &envs, &tag, true);
                    let mut v = outcome_json(&spec, &out, false, true);
                    v["idx"] = json!(idx);
                    v
                };
                let mut v = if tier == Tier::InProc && spec.isolation == "process" && args.role != "clean" {
                    // Process-isolated groups are served by a sub-worker that never runs gram code
                    // in its own address space (every launch is a forked child of it), so that
                    // process-wide state is pristine at every launch. See `sim_fork`.
                    delegate(&mut clean, args, &job, Duration::from_millis(args.cap_ms * 9 / 10))
                        .unwrap_or_else(|(status, note)| stub_json(&spec, idx, status, &note))
                } else {
                    run()
                };
                // wall time is reported for tuning only; it feeds no decision and no event hash
                v["wall_ms"] = json!(t0.elapsed().as_millis() as u64);
                v
            }
            Some("spec") => {
                let Some(spec) = job.get("spec").and_then(Spec::from_json) else {
                    continue;
                };
                let tag = "probe".to_owned();
                let run = || {
                    let out = sim_group::run_spec(&spec, &envs, &tag, false);
                    outcome_json(&spec, &out, true, false)
                };
                if spec.tier == Tier::InProc && spec.isolation == "process" && args.role != "clean" {
                    let cap = Duration::from_millis(args.cap_ms * (spec.plans.len() as u64 + 1));
                    delegate(&mut clean, args, &job, cap).unwrap_or_else(|(status, note)| stub_json(&spec, 0, status, &note))
                } else {
                    run()
                }
            }
            Some("orders") => {
                // canary of the in-process seam
                let Some(plan) = job.get("plan").and_then(Plan::from_json) else {
                    continue;
                };
                json!({ "orders": sim_inproc::iteration_orders(&plan) })
            }
            _ => continue,
        };
        if writeln!(reply_channel, "{reply}").is_err() || reply_channel.flush().is_err() {
            break;
        }
    }
    0
}
