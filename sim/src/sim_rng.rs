//! The one source of randomness of the simulator: SplitMix64 streams derived from VERIF_SEED.
//! Nothing in the harness draws from anything else, and nothing draws while logging.

#[derive(Clone, Debug)]
pub struct Rng(pub u64);

pub fn mix(mut z: u64) -> u64 {
    z = z.wrapping_add(0x9E37_79B9_7F4A_7C15);
    z = (z ^ (z >> 30)).wrapping_mul(0xBF58_476D_1CE4_E5B9);
    z = (z ^ (z >> 27)).wrapping_mul(0x94D0_49BB_1331_11EB);
    z ^ (z >> 31)
}

/// FNV-1a, used for content hashes that must not depend on `RandomState`.
pub fn fnv(bytes: &[u8]) -> u64 {
    let mut h: u64 = 0xcbf2_9ce4_8422_2325;
    for b in bytes {
        h ^= u64::from(*b);
        h = h.wrapping_mul(0x0000_0100_0000_01B3);
    }
    h
}

impl Rng {
    pub fn new(seed: u64) -> Rng {
        Rng(seed)
    }

    /// Independent stream for (seed, a, b): results never depend on which worker ran what.
    pub fn derive(seed: u64, a: u64, b: u64) -> Rng {
        Rng(mix(mix(mix(seed) ^ a.wrapping_mul(0xA24B_AED4_963E_E407)) ^ b.wrapping_mul(0x9FB2_1C65_1E98_DF25)))
    }

    pub fn next(&mut self) -> u64 {
        self.0 = self.0.wrapping_add(0x9E37_79B9_7F4A_7C15);
        let mut z = self.0;
        z = (z ^ (z >> 30)).wrapping_mul(0xBF58_476D_1CE4_E5B9);
        z = (z ^ (z >> 27)).wrapping_mul(0x94D0_49BB_1331_11EB);
        z ^ (z >> 31)
    }

    /// Uniform in 0..n (n > 0).
    pub fn below(&mut self, n: usize) -> usize {
        debug_assert!(n > 0);
        (self.next() % (n as u64)) as usize
    }

    /// Inclusive range.
    pub fn range(&mut self, lo: usize, hi: usize) -> usize {
        lo + self.below(hi - lo + 1)
    }

    /// True with probability num/den.
    pub fn chance(&mut self, num: usize, den: usize) -> bool {
        self.below(den) < num
    }

    pub fn pick<'a, T>(&mut self, items: &'a [T]) -> &'a T {
        &items[self.below(items.len())]
    }

    pub fn bytes16(&mut self) -> [u8; 16] {
        let a = self.next().to_le_bytes();
        let b = self.next().to_le_bytes();
        let mut out = [0u8; 16];
        out[..8].copy_from_slice(&a);
        out[8..].copy_from_slice(&b);
        out
    }
}
