//! Exec tier: launch the real `gram` binary built from the working tree, with the entropy seam
//! (`LD_PRELOAD` shim) and the layout seam (ASLR off + seeded displacement) under the simulator's
//! control, in an environment that contains nothing but the group's colour mode and the plan.

use crate::sim_entropy::{CallLog, Plan};
use serde_json::{Value, json};
use std::ffi::{c_int, c_ulong};
use std::fs;
use std::os::unix::process::{CommandExt, ExitStatusExt};
use std::path::{Path, PathBuf};
use std::process::{Command, Stdio};
use std::time::{Duration, Instant};

const ADDR_NO_RANDOMIZE: c_ulong = 0x0004_0000;
const RLIMIT_AS: c_int = 9;

#[repr(C)]
struct RLimit {
    cur: u64,
    max: u64,
}

unsafe extern "C" {
    fn personality(persona: c_ulong) -> c_int;
    fn setrlimit(resource: c_int, rlim: *const RLimit) -> c_int;
    fn prctl(option: c_int, arg2: c_ulong, arg3: c_ulong, arg4: c_ulong, arg5: c_ulong) -> c_int;
}

const PR_SET_PDEATHSIG: c_int = 1;
const SIGKILL: c_ulong = 9;

/// Turn address-space randomisation off for the calling process image (survives exec).
pub fn no_aslr() {
    // SAFETY: personality(2) only changes a per-process flag.
    unsafe {
        personality(ADDR_NO_RANDOMIZE);
    }
}

/// Colour mode of a group (part of "the same command": held fixed inside one comparison).
#[derive(Clone, Copy, Debug, PartialEq, Eq, PartialOrd, Ord)]
pub enum Colour {
    NoColor,
    Force,
    Unset,
}

impl Colour {
    pub fn name(self) -> &'static str {
        match self {
            Colour::NoColor => "NO_COLOR",
            Colour::Force => "CLICOLOR_FORCE",
            Colour::Unset => "unset",
        }
    }
    pub fn from_name(s: &str) -> Colour {
        match s {
            "NO_COLOR" => Colour::NoColor,
            "CLICOLOR_FORCE" => Colour::Force,
            _ => Colour::Unset,
        }
    }
    pub fn env(self) -> Vec<(&'static str, &'static str)> {
        match self {
            Colour::NoColor => vec![("NO_COLOR", "1")],
            Colour::Force => vec![("CLICOLOR_FORCE", "1")],
            Colour::Unset => vec![],
        }
    }
}

/// How the file is named on the command line.
#[derive(Clone, Copy, Debug, PartialEq, Eq, PartialOrd, Ord)]
pub enum ArgvForm {
    Check,
    Run,
    Bare,
}

impl ArgvForm {
    pub fn name(self) -> &'static str {
        match self {
            ArgvForm::Check => "check",
            ArgvForm::Run => "run",
            ArgvForm::Bare => "bare",
        }
    }
    pub fn from_name(s: &str) -> ArgvForm {
        match s {
            "check" => ArgvForm::Check,
            "run" => ArgvForm::Run,
            _ => ArgvForm::Bare,
        }
    }
    pub fn argv(self, path: &str) -> Vec<String> {
        match self {
            ArgvForm::Check => vec!["check".to_owned(), path.to_owned()],
            ArgvForm::Run => vec!["run".to_owned(), path.to_owned()],
            ArgvForm::Bare => vec![path.to_owned()],
        }
    }
}

/// How a launch ended.
#[derive(Clone, Debug, PartialEq, Eq)]
pub enum Ending {
    Exit(i32),
    Signal(i32),
    /// The wall-clock cap fired; the launch says nothing about the property.
    TimedOut,
}

#[derive(Clone, Debug, PartialEq, Eq)]
pub struct ExecObs {
    pub ending: Ending,
    pub stdout: Vec<u8>,
    /// stderr with the kernel-assigned thread id in Rust runtime banners masked.
    pub stderr: Vec<u8>,
}

impl ExecObs {
    pub fn to_json(&self) -> Value {
        json!({
            "ending": match &self.ending {
                Ending::Exit(c) => format!("exit {c}"),
                Ending::Signal(s) => format!("signal {s}"),
                Ending::TimedOut => "timed out".to_owned(),
            },
            "stdout": String::from_utf8_lossy(&self.stdout),
            "stderr": String::from_utf8_lossy(&self.stderr),
        })
    }
    pub fn abnormal(&self) -> bool {
        !matches!(self.ending, Ending::Exit(_))
    }
}

/// Rewrite `thread '<name>' (<digits>)` to `thread '<name>' (TID)`.
///
/// A tid is assigned to the process by the kernel, it is not a function of (command, file), and
/// the only text that echoes it is the Rust runtime's abort / panic banner. Nothing gram prints
/// is touched.
pub fn mask_tid(input: &[u8]) -> Vec<u8> {
    let needle = b"thread '";
    let mut out = Vec::with_capacity(input.len());
    let mut i = 0;
    while i < input.len() {
        if input[i..].starts_with(needle) {
            // find the closing quote on the same line
            let mut j = i + needle.len();
            while j < input.len() && input[j] != b'\'' && input[j] != b'\n' {
                j += 1;
            }
            if j + 2 < input.len() && input[j] == b'\'' && input[j + 1] == b' ' && input[j + 2] == b'(' {
                let mut k = j + 3;
                while k < input.len() && input[k].is_ascii_digit() {
                    k += 1;
                }
                if k > j + 3 && k < input.len() && input[k] == b')' {
                    out.extend_from_slice(&input[i..j + 3]);
                    out.extend_from_slice(b"TID");
                    i = k;
                    continue;
                }
            }
        }
        out.push(input[i]);
        i += 1;
    }
    out
}

pub struct ExecEnv {
    pub gram: PathBuf,
    pub shim: PathBuf,
    /// Wall-clock cap for one launch. Only ever discards, never decides.
    pub cap: Duration,
    /// Address-space cap in bytes for the child (0 = none).
    pub mem_cap: u64,
    /// Live fork servers of this process, keyed by (program, argc).
    pub forks: std::cell::RefCell<Vec<ForkServer>>,
    /// Fallback only: mask the thread id in Rust runtime banners instead of owning it through the
    /// gettid seam (set when the canary finds that seam dead).
    pub mask_tid: bool,
}

impl ExecEnv {
    pub fn new(gram: PathBuf, shim: PathBuf, cap: Duration, mem_cap: u64) -> ExecEnv {
        ExecEnv { gram, shim, cap, mem_cap, forks: std::cell::RefCell::new(vec![]), mask_tid: false }
    }
}

#[repr(C)]
struct PollFd {
    fd: c_int,
    events: i16,
    revents: i16,
}

unsafe extern "C" {
    fn poll(fds: *mut PollFd, nfds: c_ulong, timeout_ms: c_int) -> c_int;
    fn kill(pid: c_int, sig: c_int) -> c_int;
}

/// The real binary, started once and stopped inside the shim's constructor (after the dynamic
/// loader, before the program's own initialisers and `main`), forking one child per launch.
/// See `shim/entropy_shim.c`. Everything a launch is given - plan, arguments, environment,
/// working directory, output files - travels over the control pipe.
pub struct ForkServer {
    program: PathBuf,
    argc: usize,
    child: std::process::Child,
    ctl: std::process::ChildStdin,
    status: std::process::ChildStdout,
    buf: Vec<u8>,
}

impl ForkServer {
    fn start(env: &ExecEnv, program: &Path, argc: usize) -> Result<ForkServer, String> {
        let mut cmd = Command::new(program);
        for i in 1..argc {
            cmd.arg(format!("gramsim-placeholder-{i}"));
        }
        cmd.env_clear()
            .env("LD_PRELOAD", &env.shim)
            .env("GRAMSIM_FORKSERVER", "1")
            .stdin(Stdio::piped())
            .stdout(Stdio::piped())
            .stderr(Stdio::null());
        let mem_cap = env.mem_cap;
        // SAFETY: only async-signal-safe calls between fork and exec.
        unsafe {
            cmd.pre_exec(move || {
                personality(ADDR_NO_RANDOMIZE);
                prctl(PR_SET_PDEATHSIG, SIGKILL, 0, 0, 0);
                if mem_cap > 0 {
                    let lim = RLimit { cur: mem_cap, max: mem_cap };
                    setrlimit(RLIMIT_AS, &lim);
                }
                Ok(())
            });
        }
        let mut child = cmd.spawn().map_err(|e| format!("spawn fork server {program:?}: {e}"))?;
        let ctl = child.stdin.take().ok_or("fork server: no stdin")?;
        let status = child.stdout.take().ok_or("fork server: no stdout")?;
        Ok(ForkServer { program: program.to_path_buf(), argc, child, ctl, status, buf: vec![] })
    }

    /// Next status line, or None when `deadline` passes first.
    fn read_line(&mut self, deadline: Instant) -> Result<Option<String>, String> {
        use std::io::Read;
        use std::os::fd::AsRawFd;
        loop {
            if let Some(pos) = self.buf.iter().position(|b| *b == b'\n') {
                let line: Vec<u8> = self.buf.drain(..=pos).collect();
                return Ok(Some(String::from_utf8_lossy(&line[..line.len() - 1]).into_owned()));
            }
            let now = Instant::now();
            if now >= deadline {
                return Ok(None);
            }
            let ms = (deadline - now).as_millis().min(60_000) as c_int;
            let mut pfd = PollFd { fd: self.status.as_raw_fd(), events: 1, revents: 0 };
            // SAFETY: one valid pollfd.
            let r = unsafe { poll(&mut pfd, 1, ms.max(1)) };
            if r < 0 {
                continue;
            }
            if r == 0 {
                continue;
            }
            let mut chunk = [0u8; 256];
            match self.status.read(&mut chunk) {
                Ok(0) => return Err("fork server closed its status pipe".to_owned()),
                Ok(n) => self.buf.extend_from_slice(&chunk[..n]),
                Err(e) => return Err(format!("fork server status: {e}")),
            }
        }
    }

    #[allow(clippy::too_many_arguments)]
    fn launch(
        &mut self,
        args: &[String],
        cwd: &Path,
        colour: Colour,
        plan: &Plan,
        out: &Path,
        err: &Path,
        log: &Path,
        cap: Duration,
        tmpdir: Option<&Path>,
    ) -> Result<Ending, String> {
        use std::io::Write;
        let mut msg = String::new();
        msg.push_str(&format!("KEY {}\n", plan.key_hex()));
        msg.push_str(&format!("EINTR {}\nNOINSECURE {}\nCHUNK {}\n", plan.eintr, u8::from(plan.no_insecure), plan.chunk));
        msg.push_str(&format!("SKEW_HEAP {}\nSKEW_MMAP {}\n", plan.skew_heap, plan.skew_mmap));
        msg.push_str(&format!("CLOCK {} {}\nPID {}\nRSS {}\n", plan.clock_base, plan.clock_step_ns, plan.pid, plan.rss_kib));
        msg.push_str(&format!("WAIT {}\nREAD {} {}\nCRASH {}\n", plan.wait_ppm, plan.read_chunk, plan.read_eintr, plan.crash_at));
        if !plan.stall.is_empty() {
            msg.push_str(&format!("STALL {}\n", plan.stall.iter().map(ToString::to_string).collect::<Vec<_>>().join(",")));
        }
        if !plan.linger.is_empty() {
            msg.push_str(&format!("LINGER {}\n", plan.linger.iter().map(ToString::to_string).collect::<Vec<_>>().join(",")));
        }
        msg.push_str(&format!("LOG {}\nOUT {}\nERR {}\nCWD {}\n", log.display(), out.display(), err.display(), cwd.display()));
        for (k, v) in colour.env() {
            msg.push_str(&format!("ENV {k}={v}\n"));
        }
        if let Some(tmp) = tmpdir {
            msg.push_str(&format!("ENV TMPDIR={}\n", tmp.display()));
            // the user's home directory belongs to the group too (durable state under ~/.cache etc.)
            msg.push_str(&format!("ENV HOME={}\n", tmp.with_file_name("home").display()));
        }
        for (i, a) in args.iter().enumerate() {
            if a.contains('\n') {
                return Err("argument with a line break".to_owned());
            }
            msg.push_str(&format!("ARG {} {}\n", i + 1, a));
        }
        msg.push_str("GO\n");
        self.ctl.write_all(msg.as_bytes()).and_then(|()| self.ctl.flush()).map_err(|e| format!("fork server ctl: {e}"))?;
        let started = Instant::now();
        let pid_line = self.read_line(started + Duration::from_secs(30))?.ok_or("fork server did not report a pid")?;
        let pid: c_int = pid_line.strip_prefix("P ").and_then(|p| p.trim().parse().ok()).ok_or(format!("fork server said {pid_line:?}"))?;
        let mut timed_out = false;
        let status_line = match self.read_line(started + cap)? {
            Some(l) => l,
            None => {
                timed_out = true;
                if pid > 0 {
                    // SAFETY: signalling the child the server just reported.
                    unsafe { kill(pid, 9) };
                }
                self.read_line(Instant::now() + Duration::from_secs(30))?.ok_or("fork server did not reap a killed child")?
            }
        };
        let raw: i32 = status_line.strip_prefix("X ").and_then(|p| p.trim().parse().ok()).ok_or(format!("fork server said {status_line:?}"))?;
        if timed_out {
            return Ok(Ending::TimedOut);
        }
        Ok(if raw & 0x7f == 0 { Ending::Exit((raw >> 8) & 0xff) } else { Ending::Signal(raw & 0x7f) })
    }
}

impl Drop for ForkServer {
    fn drop(&mut self) {
        let _ = self.child.kill();
        let _ = self.child.wait();
    }
}

/// Launch through a fork server (started on first use). `args` must have the same count for
/// every launch of one server, because the argument count is fixed when the server is exec'd.
#[allow(clippy::too_many_arguments)]
pub fn launch_forked(
    env: &ExecEnv,
    program: &Path,
    args: &[String],
    cwd: &Path,
    scratch: &Path,
    colour: Colour,
    plan: &Plan,
    tag: &str,
) -> Result<(ExecObs, CallLog), String> {
    let out_path = scratch.join(format!("{tag}.out"));
    let err_path = scratch.join(format!("{tag}.err"));
    let log_path = scratch.join(format!("{tag}.log"));
    let _ = fs::remove_file(&log_path);
    let argc = args.len() + 1;
    let mut forks = env.forks.borrow_mut();
    let idx = match forks.iter().position(|f| f.argc == argc && f.program == program) {
        Some(i) => i,
        None => {
            forks.push(ForkServer::start(env, program, argc)?);
            forks.len() - 1
        }
    };
    let tmpdir = scratch.join("tmp");
    let ending = match forks[idx].launch(args, cwd, colour, plan, &out_path, &err_path, &log_path, env.cap, Some(&tmpdir)) {
        Ok(e) => e,
        Err(e) => {
            // a server that lost protocol sync is not reused
            forks.remove(idx);
            return Err(e);
        }
    };
    let stdout = fs::read(&out_path).unwrap_or_default();
    let raw_err = fs::read(&err_path).unwrap_or_default();
    let stderr = if env.mask_tid { mask_tid(&raw_err) } else { raw_err };
    let log = CallLog::parse(&fs::read_to_string(&log_path).unwrap_or_default());
    let _ = fs::remove_file(&out_path);
    let _ = fs::remove_file(&err_path);
    let _ = fs::remove_file(&log_path);
    Ok((ExecObs { ending, stdout, stderr }, log))
}

/// Launch `program args…` under the plan, in `cwd`, writing scratch files into `scratch`.
pub fn launch_program(
    env: &ExecEnv,
    program: &Path,
    args: &[String],
    cwd: &Path,
    scratch: &Path,
    colour: Colour,
    plan: &Plan,
    tag: &str,
) -> Result<(ExecObs, CallLog), String> {
    let out_path = scratch.join(format!("{tag}.out"));
    let err_path = scratch.join(format!("{tag}.err"));
    let log_path = scratch.join(format!("{tag}.log"));
    let _ = fs::remove_file(&log_path);
    let out_file = fs::File::create(&out_path).map_err(|e| format!("create {out_path:?}: {e}"))?;
    let err_file = fs::File::create(&err_path).map_err(|e| format!("create {err_path:?}: {e}"))?;

    let mut cmd = Command::new(program);
    cmd.args(args)
        .current_dir(cwd)
        .env_clear()
        .stdin(Stdio::null())
        .stdout(Stdio::from(out_file))
        .stderr(Stdio::from(err_file));
    for (k, v) in colour.env() {
        cmd.env(k, v);
    }
    // Durable state between launches: a temporary directory that belongs to the group, so that
    // what one launch leaves behind is there for the next launch of the same group (as on a real
    // machine) and for nobody else (so that the history is replayable).
    cmd.env("TMPDIR", scratch.join("tmp"));
    cmd.env("HOME", scratch.join("home"));
    cmd.env("LD_PRELOAD", &env.shim);
    cmd.env("GRAMSIM_KEY", plan.key_hex());
    cmd.env("GRAMSIM_LOG", &log_path);
    if plan.eintr > 0 {
        cmd.env("GRAMSIM_EINTR", plan.eintr.to_string());
    }
    if plan.no_insecure {
        cmd.env("GRAMSIM_NOINSECURE", "1");
    }
    if plan.chunk > 0 {
        cmd.env("GRAMSIM_CHUNK", plan.chunk.to_string());
    }
    if plan.skew_heap > 0 {
        cmd.env("GRAMSIM_SKEW_HEAP", plan.skew_heap.to_string());
    }
    if plan.skew_mmap > 0 {
        cmd.env("GRAMSIM_SKEW_MMAP", plan.skew_mmap.to_string());
    }
    if plan.env_pad > 0 {
        cmd.env("GRAMSIM_PAD", "p".repeat(plan.env_pad as usize));
    }
    // The clock and the pid are always the simulator's, never the machine's.
    cmd.env("GRAMSIM_CLOCK", plan.clock_base.to_string());
    cmd.env("GRAMSIM_CLOCK_STEP", plan.clock_step_ns.to_string());
    cmd.env("GRAMSIM_PID", plan.pid.to_string());
    cmd.env("GRAMSIM_RSS", plan.rss_kib.to_string());
    cmd.env("GRAMSIM_WAIT_PPM", plan.wait_ppm.to_string());
    if plan.crash_at > 0 {
        cmd.env("GRAMSIM_CRASH_AT", plan.crash_at.to_string());
    }
    if plan.read_chunk > 0 {
        cmd.env("GRAMSIM_READ_CHUNK", plan.read_chunk.to_string());
        cmd.env("GRAMSIM_READ_EINTR", plan.read_eintr.to_string());
    }
    if !plan.stall.is_empty() {
        cmd.env("GRAMSIM_STALL", plan.stall.iter().map(ToString::to_string).collect::<Vec<_>>().join(","));
    }
    if !plan.linger.is_empty() {
        cmd.env("GRAMSIM_LINGER", plan.linger.iter().map(ToString::to_string).collect::<Vec<_>>().join(","));
    }
    let mem_cap = env.mem_cap;
    // SAFETY: only async-signal-safe calls (personality, prctl, setrlimit) between fork and exec.
    unsafe {
        cmd.pre_exec(move || {
            // Layout seam: turn ASLR off so that the displacement chosen by the plan, not the
            // kernel, decides pointer values.
            personality(ADDR_NO_RANDOMIZE);
            // If the worker is killed by the driver's watchdog, a divergent child must not linger.
            prctl(PR_SET_PDEATHSIG, SIGKILL, 0, 0, 0);
            if mem_cap > 0 {
                let lim = RLimit { cur: mem_cap, max: mem_cap };
                setrlimit(RLIMIT_AS, &lim);
            }
            Ok(())
        });
    }

    let mut child = cmd.spawn().map_err(|e| format!("spawn {program:?}: {e}"))?;
    let started = Instant::now();
    let mut sleep_us = 200u64;
    let ending = loop {
        match child.try_wait() {
            Ok(Some(status)) => {
                break if let Some(code) = status.code() {
                    Ending::Exit(code)
                } else {
                    Ending::Signal(status.signal().unwrap_or(-1))
                };
            }
            Ok(None) => {
                if started.elapsed() > env.cap {
                    let _ = child.kill();
                    let _ = child.wait();
                    break Ending::TimedOut;
                }
                std::thread::sleep(Duration::from_micros(sleep_us));
                if sleep_us < 5_000 {
                    sleep_us += sleep_us / 2;
                }
            }
            Err(e) => return Err(format!("wait: {e}")),
        }
    };
    let stdout = fs::read(&out_path).unwrap_or_default();
    let raw_err = fs::read(&err_path).unwrap_or_default();
    let stderr = if env.mask_tid { mask_tid(&raw_err) } else { raw_err };
    let log = CallLog::parse(&fs::read_to_string(&log_path).unwrap_or_default());
    let _ = fs::remove_file(&out_path);
    let _ = fs::remove_file(&err_path);
    let _ = fs::remove_file(&log_path);
    Ok((ExecObs { ending, stdout, stderr }, log))
}

/// A companion launch for the overlap fault: the same program and arguments under the reference
/// settings, started in the background; it stalls for `pause_ms` at its `pause_at`-th
/// durable-state operation and creates `<tag>.paused` in the scratch directory when it does.
/// Returns once the companion has stalled or ended (or after two seconds).
#[allow(clippy::too_many_arguments)]
pub fn spawn_companion(
    env: &ExecEnv,
    args: &[String],
    cwd: &Path,
    scratch: &Path,
    colour: Colour,
    plan: &Plan,
    tag: &str,
    pause_at: u32,
    pause_ms: u32,
) -> Option<(std::process::Child, bool)> {
    let marker = scratch.join(format!("{tag}.paused"));
    let log_path = scratch.join(format!("{tag}.log"));
    let _ = fs::remove_file(&marker);
    let _ = fs::remove_file(&log_path);
    let mut cmd = Command::new(&env.gram);
    cmd.args(args).current_dir(cwd).env_clear().stdin(Stdio::null()).stdout(Stdio::null()).stderr(Stdio::null());
    for (k, v) in colour.env() {
        cmd.env(k, v);
    }
    cmd.env("TMPDIR", scratch.join("tmp"));
    cmd.env("HOME", scratch.join("home"));
    cmd.env("LD_PRELOAD", &env.shim);
    cmd.env("GRAMSIM_KEY", plan.key_hex());
    cmd.env("GRAMSIM_LOG", &log_path);
    cmd.env("GRAMSIM_CLOCK", plan.clock_base.to_string());
    cmd.env("GRAMSIM_CLOCK_STEP", plan.clock_step_ns.to_string());
    cmd.env("GRAMSIM_PID", (plan.pid + 7).to_string());
    cmd.env("GRAMSIM_RSS", plan.rss_kib.to_string());
    cmd.env("GRAMSIM_PAUSE_AT", pause_at.to_string());
    cmd.env("GRAMSIM_PAUSE_MS", pause_ms.to_string());
    cmd.env("GRAMSIM_PAUSE_MARKER", &marker);
    // SAFETY: only async-signal-safe calls between fork and exec.
    unsafe {
        cmd.pre_exec(|| {
            personality(ADDR_NO_RANDOMIZE);
            prctl(PR_SET_PDEATHSIG, SIGKILL, 0, 0, 0);
            Ok(())
        });
    }
    let mut child = cmd.spawn().ok()?;
    let started = Instant::now();
    let mut stalled = false;
    loop {
        if marker.exists() {
            stalled = true;
            break;
        }
        if !matches!(child.try_wait(), Ok(None)) || started.elapsed() > Duration::from_secs(2) {
            break;
        }
        std::thread::sleep(Duration::from_micros(500));
    }
    let _ = fs::remove_file(&marker);
    Some((child, stalled))
}

/// Launch gram on a file of the group.
pub fn launch_gram(
    env: &ExecEnv,
    form: ArgvForm,
    path_arg: &str,
    cwd: &Path,
    scratch: &Path,
    colour: Colour,
    plan: &Plan,
    tag: &str,
) -> Result<(ExecObs, CallLog), String> {
    let gram = env.gram.clone();
    launch_program(env, &gram, &form.argv(path_arg), cwd, scratch, colour, plan, tag)
}
