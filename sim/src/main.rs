//! gramsim — deterministic simulation of `gram` launches for property C13
//! ("output is a deterministic function of the input file").
//!
//! The repository's own source files are mounted below as modules of this crate (the list is
//! generated from its `src/main.rs` at check time), so the in-process tier runs the real library
//! stages; only `main.rs` itself is replaced by a stub. See /verif/DESIGN.md.
#![allow(dead_code, unused_imports, unused_variables, unused_macros, unused_mut)]
#![allow(clippy::all, clippy::pedantic)]

include!(concat!(env!("GRAMSIM_GEN"), "/repo_mods.rs"));

mod sim_args;
mod sim_driver;
mod sim_entropy;
mod sim_exec;
mod sim_fork;
mod sim_gen;
mod sim_group;
mod sim_harvest;
mod sim_inproc;
mod sim_min;
mod sim_pool;
mod sim_rng;
mod sim_worker;

fn main() {
    let argv: Vec<String> = std::env::args().collect();
    let args = match sim_args::Args::parse(&argv) {
        Ok(a) => a,
        Err(e) => {
            eprintln!("HARNESS-ERROR: {e}");
            std::process::exit(2);
        }
    };
    let code = match args.command.as_str() {
        "run" => sim_driver::run_main(&args),
        "worker" => sim_worker::worker_main(&args),
        "replay" => sim_driver::replay_main(&args),
        "selftest" => sim_driver::selftest_main(&args),
        "gen" => {
            // print generated case number --seed of the in-process stream (debugging aid)
            let corpus = sim_harvest::harvest(&args.repo);
            let spec = sim_group::derive_spec(
                args.seed,
                sim_group::Tier::from_name(&args.tier),
                args.ip_groups,
                &corpus,
                sim_group::Shape { plans: 2 },
            );
            println!("# {}", spec.family);
            print!("{}", String::from_utf8_lossy(&spec.source));
            0
        }
        "dump" => {
            // write the files of in-process groups 0..--ip-groups into --work (coverage tooling)
            let corpus = sim_harvest::harvest(&args.repo);
            let _ = std::fs::create_dir_all(&args.work);
            for idx in 0..args.ip_groups {
                let spec = sim_group::derive_spec(
                    args.seed,
                    sim_group::Tier::InProc,
                    idx,
                    &corpus,
                    sim_group::Shape { plans: 2 },
                );
                let _ = std::fs::write(args.work.join(format!("p{idx}.g")), &spec.source);
            }
            0
        }
        other => {
            eprintln!("HARNESS-ERROR: unknown command {other:?}");
            2
        }
    };
    std::process::exit(code);
}
