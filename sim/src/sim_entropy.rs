//! The entropy seam, in-process side.
//!
//! std's `RandomState` draws its per-thread SipHash keys from `getrandom(2)`, called through a
//! weak symbol so that it can be interposed.  This binary defines that symbol: the static linker
//! binds std's reference to it, and from then on every hash container created in this process is
//! keyed by bytes the simulator chose.  One simulated launch is one fresh thread whose plan was
//! installed before any container exists; threads without a plan (the harness's own) get a fixed
//! key, which incidentally makes the harness's own hash containers deterministic.
//!
//! The same `Plan` drives the `LD_PRELOAD` shim of the exec tier (see `shim/entropy_shim.c`);
//! both implement identical delivery semantics.

use serde_json::{Value, json};
use std::cell::RefCell;
use std::ffi::{c_int, c_uint, c_void};

pub const GRND_INSECURE: c_uint = 0x0004;
const EINTR: c_int = 4;
const EINVAL: c_int = 22;

/// Everything the simulator decides about one launch.
#[derive(Clone, Debug, PartialEq, Eq)]
pub struct Plan {
    /// How this plan was derived (reach accounting only).
    pub kind: String,
    /// The bytes handed out by successive `getrandom` calls.
    pub key: [u8; 16],
    /// The first `eintr` calls fail with EINTR.
    pub eintr: u32,
    /// Calls carrying GRND_INSECURE fail with EINVAL (kernel older than 5.6).
    pub no_insecure: bool,
    /// Deliver at most this many bytes per call (0 = no limit).
    pub chunk: u32,
    /// Layout seam, exec tier only: leaked malloc / leaked mmap / environment padding, in bytes.
    pub skew_heap: u64,
    pub skew_mmap: u64,
    pub env_pad: u32,
    /// Clock seam: the simulated clock starts at `clock_base` seconds after the epoch and advances
    /// by `clock_step_ns` per read. gram reads no clock; owning the seam turns that from an
    /// assertion into a measurement (reads are counted) and makes a change that starts reading
    /// the clock fail replayably instead of flakily.
    pub clock_base: u64,
    pub clock_step_ns: u64,
    /// Process-identity seam: what getpid() returns.
    pub pid: u32,
    /// In-process tier only: run the stages this many extra times on the same thread first and
    /// observe the last run ("repeated calls" in one process: later RandomStates, warm state).
    pub repeat: u32,
    /// Exec tier only: stall the k-th thread the launched process creates by this many
    /// microseconds before its start routine runs (a slow thread). gram creates exactly one
    /// thread and joins it, so nothing can change on the current tree; a change that introduces
    /// racing threads is made to show its race.
    pub stall: Vec<u32>,
    /// After creating its k-th thread the creating thread sleeps this many microseconds (it is
    /// descheduled right after clone), so the new thread gets to run first.
    pub linger: Vec<u32>,
    /// Exec tier only: the resident set size (KiB) that /proc/self/status and /proc/self/statm
    /// report to the process. Memory statistics belong to the machine, not to the input file.
    pub rss_kib: u64,
    /// History fault (launches that read the file from disk): before this launch the same path
    /// held a *sibling version* of the file - same length, a few bytes different, derived from
    /// this number - which was launched with the same command and the same plan; then the true
    /// bytes were put back with the same modification time (an in-place edit within the clock's
    /// granularity, or a tool that preserves times). Whatever that earlier launch left behind
    /// (a cache, an index, a stamp) is found by this one. 0 = no such history.
    pub prior_edit: u32,
    /// Timed waits and sleeps last this many millionths of what the program asked for (0: they
    /// run out at once; 1 000 000: faithful). The simulated clock advances by the full time asked
    /// whenever a wait runs out. Exec tier.
    pub wait_ppm: u32,
    /// Reads of regular files deliver 1..=read_chunk bytes per call (0: no limit), and the first
    /// `read_eintr` of them fail with EINTR.
    pub read_chunk: u32,
    pub read_eintr: u32,
    /// History fault, exec tier: before this launch the same command ran on the same file and was
    /// killed at its `prior_crash`-th durable-state operation (a torn write to a regular file, a
    /// file creation, rename, unlink, mkdir or fsync); only what it had made durable by then is
    /// there for this launch. 0 = no such history.
    pub prior_crash: u32,
    /// Overlap fault, exec tier: while this launch runs, another launch of the same command on the
    /// same file is in flight, stalled at its `overlap`-th durable-state operation (holding a lock
    /// it took, or with half of a record written) for 400 ms of real time. 0 = none.
    pub overlap: u32,
    /// Transport only: the crash point of *this* launch (set on the unobserved earlier launch of a
    /// `prior_crash` history, never on an observed one).
    pub crash_at: u32,
}

pub const REF_WAIT_PPM: u32 = 1_000_000;
pub const REF_RSS_KIB: u64 = 8192;
pub const REF_CLOCK_BASE: u64 = 1_700_000_000;
pub const REF_CLOCK_STEP_NS: u64 = 1_000_000;
pub const REF_PID: u32 = 4242;

impl Plan {
    pub fn plain(kind: &str, key: [u8; 16]) -> Plan {
        Plan {
            kind: kind.to_owned(),
            key,
            eintr: 0,
            no_insecure: false,
            chunk: 0,
            skew_heap: 0,
            skew_mmap: 0,
            env_pad: 0,
            clock_base: REF_CLOCK_BASE,
            clock_step_ns: REF_CLOCK_STEP_NS,
            pid: REF_PID,
            repeat: 0,
            stall: vec![],
            linger: vec![],
            rss_kib: REF_RSS_KIB,
            prior_edit: 0,
            wait_ppm: REF_WAIT_PPM,
            read_chunk: 0,
            read_eintr: 0,
            prior_crash: 0,
            overlap: 0,
            crash_at: 0,
        }
    }

    pub fn has_identity_fault(&self) -> bool {
        self.clock_base != REF_CLOCK_BASE
            || self.clock_step_ns != REF_CLOCK_STEP_NS
            || self.pid != REF_PID
            || self.rss_kib != REF_RSS_KIB
    }

    pub fn key_hex(&self) -> String {
        self.key.iter().map(|b| format!("{b:02x}")).collect()
    }

    pub fn has_delivery_fault(&self) -> bool {
        self.eintr > 0 || self.no_insecure || self.chunk > 0
    }

    pub fn has_skew(&self) -> bool {
        self.skew_heap > 0 || self.skew_mmap > 0 || self.env_pad > 0
    }

    pub fn to_json(&self) -> Value {
        json!({
            "kind": self.kind,
            "key": self.key_hex(),
            "eintr": self.eintr,
            "no_insecure": self.no_insecure,
            "chunk": self.chunk,
            "skew_heap": self.skew_heap,
            "skew_mmap": self.skew_mmap,
            "env_pad": self.env_pad,
            "clock_base": self.clock_base,
            "clock_step_ns": self.clock_step_ns,
            "pid": self.pid,
            "repeat": self.repeat,
            "stall": self.stall,
            "linger": self.linger,
            "rss_kib": self.rss_kib,
            "prior_edit": self.prior_edit,
            "wait_ppm": self.wait_ppm,
            "read_chunk": self.read_chunk,
            "read_eintr": self.read_eintr,
            "prior_crash": self.prior_crash,
            "overlap": self.overlap,
            "crash_at": self.crash_at,
        })
    }

    pub fn from_json(v: &Value) -> Option<Plan> {
        let hex = v.get("key")?.as_str()?;
        if hex.len() != 32 {
            return None;
        }
        let mut key = [0u8; 16];
        for (i, slot) in key.iter_mut().enumerate() {
            *slot = u8::from_str_radix(&hex[2 * i..2 * i + 2], 16).ok()?;
        }
        Some(Plan {
            kind: v.get("kind").and_then(Value::as_str).unwrap_or("replay").to_owned(),
            key,
            eintr: v.get("eintr").and_then(Value::as_u64).unwrap_or(0) as u32,
            no_insecure: v.get("no_insecure").and_then(Value::as_bool).unwrap_or(false),
            chunk: v.get("chunk").and_then(Value::as_u64).unwrap_or(0) as u32,
            skew_heap: v.get("skew_heap").and_then(Value::as_u64).unwrap_or(0),
            skew_mmap: v.get("skew_mmap").and_then(Value::as_u64).unwrap_or(0),
            env_pad: v.get("env_pad").and_then(Value::as_u64).unwrap_or(0) as u32,
            clock_base: v.get("clock_base").and_then(Value::as_u64).unwrap_or(REF_CLOCK_BASE),
            clock_step_ns: v.get("clock_step_ns").and_then(Value::as_u64).unwrap_or(REF_CLOCK_STEP_NS),
            pid: v.get("pid").and_then(Value::as_u64).unwrap_or(u64::from(REF_PID)) as u32,
            repeat: v.get("repeat").and_then(Value::as_u64).unwrap_or(0) as u32,
            stall: list_u32(v.get("stall")),
            linger: list_u32(v.get("linger")),
            rss_kib: v.get("rss_kib").and_then(Value::as_u64).unwrap_or(REF_RSS_KIB),
            prior_edit: v.get("prior_edit").and_then(Value::as_u64).unwrap_or(0) as u32,
            wait_ppm: v.get("wait_ppm").and_then(Value::as_u64).unwrap_or(u64::from(REF_WAIT_PPM)) as u32,
            read_chunk: v.get("read_chunk").and_then(Value::as_u64).unwrap_or(0) as u32,
            read_eintr: v.get("read_eintr").and_then(Value::as_u64).unwrap_or(0) as u32,
            prior_crash: v.get("prior_crash").and_then(Value::as_u64).unwrap_or(0) as u32,
            overlap: v.get("overlap").and_then(Value::as_u64).unwrap_or(0) as u32,
            crash_at: v.get("crash_at").and_then(Value::as_u64).unwrap_or(0) as u32,
        })
    }
}

fn list_u32(v: Option<&Value>) -> Vec<u32> {
    v.and_then(Value::as_array)
        .map(|a| a.iter().filter_map(|x| x.as_u64().map(|n| n as u32)).collect())
        .unwrap_or_default()
}

/// What the seam saw during one launch: one entry per `getrandom` call.
#[derive(Clone, Debug, Default, PartialEq, Eq)]
pub struct CallLog {
    /// (requested length, flags, return value or -errno)
    pub calls: Vec<(usize, u32, i64)>,
    /// The shim's constructor reported that it displaced the heap / mmap area (exec tier).
    pub skewed: bool,
    /// Reads of the simulated clock / of the simulated pid by the launched code.
    pub clock_reads: u64,
    pub pid_reads: u64,
    /// Thread starts the shim actually stalled.
    pub stalls: u64,
    /// Timed waits / sleeps the seam served, and reads of regular files it cut short or interrupted.
    pub waits: u64,
    pub short_reads: u64,
    /// The launch was killed at its crash point.
    pub crashed: bool,
}

impl CallLog {
    pub fn delivered(&self) -> usize {
        self.calls.iter().filter(|c| c.2 > 0).map(|c| c.2 as usize).sum()
    }
    pub fn count_errno(&self, errno: i64) -> usize {
        self.calls.iter().filter(|c| c.2 == -errno).count()
    }
    pub fn count_short(&self) -> usize {
        self.calls.iter().filter(|c| c.2 > 0 && (c.2 as usize) < c.0).count()
    }
    pub fn parse(text: &str) -> CallLog {
        let mut calls = vec![];
        let mut skewed = false;
        let mut clock_reads = 0;
        let mut pid_reads = 0;
        let mut stalls = 0;
        let mut waits = 0;
        let mut short_reads = 0;
        let mut crashed = false;
        for line in text.lines() {
            if line.starts_with("S ") {
                skewed = true;
                continue;
            }
            if line == "T" {
                clock_reads += 1;
                continue;
            }
            if line == "P" {
                pid_reads += 1;
                continue;
            }
            if line.starts_with("Z ") {
                stalls += 1;
                continue;
            }
            if line == "W" {
                waits += 1;
                continue;
            }
            if line == "R" {
                short_reads += 1;
                continue;
            }
            if line.starts_with("K ") {
                crashed = true;
                continue;
            }
            let mut it = line.split_whitespace();
            if let (Some(a), Some(b), Some(c)) = (it.next(), it.next(), it.next()) {
                if let (Ok(a), Ok(b), Ok(c)) = (a.parse(), b.parse(), c.parse()) {
                    calls.push((a, b, c));
                }
            }
        }
        CallLog { calls, skewed, clock_reads, pid_reads, stalls, waits, short_reads, crashed }
    }
}

struct State {
    key: [u8; 16],
    pos: usize,
    tail: u64,
    eintr_left: u32,
    no_insecure: bool,
    chunk: usize,
    log: Vec<(usize, u32, i64)>,
    installed: bool,
    clock_base: u64,
    clock_step_ns: u64,
    clock_reads: u64,
    pid: u32,
    pid_reads: u64,
    rss_kib: u64,
    read_chunk: u32,
    read_eintr: u32,
    read_state: u64,
    short_reads: u64,
}

/// Key used by threads that are not simulated launches (the harness itself).
const HARNESS_KEY: [u8; 16] = *b"gramsim-harness!";

thread_local! {
    static STATE: RefCell<State> = const { RefCell::new(State {
        key: HARNESS_KEY,
        pos: 0,
        tail: 0,
        eintr_left: 0,
        no_insecure: false,
        chunk: 0,
        log: Vec::new(),
        installed: false,
        clock_base: 0,
        clock_step_ns: 0,
        clock_reads: 0,
        pid: 0,
        pid_reads: 0,
        rss_kib: 0,
        read_chunk: 0,
        read_eintr: 0,
        read_state: 0,
        short_reads: 0,
    }) };
}

fn tail_seed(key: &[u8; 16]) -> u64 {
    // Must match the shim: FNV-style fold of the key bytes.
    let mut s: u64 = 0x0067_7261_6d73_696d;
    for b in key {
        s = s.wrapping_mul(0x0000_0100_0000_01B3).wrapping_add(u64::from(*b));
    }
    s
}

fn splitmix(s: &mut u64) -> u64 {
    *s = s.wrapping_add(0x9E37_79B9_7F4A_7C15);
    let mut z = *s;
    z = (z ^ (z >> 30)).wrapping_mul(0xBF58_476D_1CE4_E5B9);
    z = (z ^ (z >> 27)).wrapping_mul(0x94D0_49BB_1331_11EB);
    z ^ (z >> 31)
}

/// Install the plan for the current thread. Must be called before the thread creates any hash
/// container (i.e. first thing in the launch thread).
pub fn install(plan: &Plan) {
    STATE.with(|s| {
        let mut s = s.borrow_mut();
        s.key = plan.key;
        s.pos = 0;
        s.tail = tail_seed(&plan.key);
        s.eintr_left = plan.eintr;
        s.no_insecure = plan.no_insecure;
        s.chunk = plan.chunk as usize;
        s.log.clear();
        s.installed = true;
        s.clock_base = plan.clock_base;
        s.clock_step_ns = plan.clock_step_ns;
        s.clock_reads = 0;
        s.pid = plan.pid;
        s.pid_reads = 0;
        s.rss_kib = plan.rss_kib;
        s.read_chunk = plan.read_chunk;
        s.read_eintr = plan.read_eintr;
        s.read_state = tail_seed(&plan.key) ^ 0x7265_6164;
        s.short_reads = 0;
    });
}

/// The calls the seam served on this thread since `install`.
pub fn take_log() -> CallLog {
    STATE.with(|s| {
        let mut s = s.borrow_mut();
        CallLog {
            calls: std::mem::take(&mut s.log),
            skewed: false,
            clock_reads: s.clock_reads,
            pid_reads: s.pid_reads,
            stalls: 0,
            waits: 0,
            short_reads: std::mem::take(&mut s.short_reads),
            crashed: false,
        }
    })
}

unsafe extern "C" {
    fn __errno_location() -> *mut c_int;
}

/// The interposed symbol. Signature of glibc's `getrandom(3)`.
///
/// # Safety
/// `buf` must be valid for `buflen` bytes, as for the libc function it replaces.
#[unsafe(no_mangle)]
pub unsafe extern "C" fn getrandom(buf: *mut c_void, buflen: usize, flags: c_uint) -> isize {
    let result: Result<Vec<u8>, c_int> = STATE
        .try_with(|s| {
            let Ok(mut s) = s.try_borrow_mut() else {
                // Re-entrancy cannot happen (nothing in here allocates a hash container), but
                // never panic across the FFI boundary: serve the harness key.
                return Ok(HARNESS_KEY.iter().copied().cycle().take(buflen).collect());
            };
            if !s.installed && s.tail == 0 {
                s.tail = tail_seed(&HARNESS_KEY);
            }
            if s.eintr_left > 0 {
                s.eintr_left -= 1;
                s.log.push((buflen, flags, -i64::from(EINTR)));
                return Err(EINTR);
            }
            if s.no_insecure && (flags & GRND_INSECURE) != 0 {
                s.log.push((buflen, flags, -i64::from(EINVAL)));
                return Err(EINVAL);
            }
            let mut n = buflen;
            if s.chunk > 0 && n > s.chunk {
                n = s.chunk;
            }
            let mut out = Vec::with_capacity(n);
            for _ in 0..n {
                if s.pos < 16 {
                    out.push(s.key[s.pos]);
                    s.pos += 1;
                } else {
                    let mut t = s.tail;
                    out.push((splitmix(&mut t) & 0xff) as u8);
                    s.tail = t;
                }
            }
            s.log.push((buflen, flags, n as i64));
            Ok(out)
        })
        .unwrap_or_else(|_| Ok(HARNESS_KEY.iter().copied().cycle().take(buflen).collect()));
    match result {
        Ok(bytes) => {
            // SAFETY: the caller guarantees `buf` is valid for `buflen >= bytes.len()` bytes.
            unsafe { std::ptr::copy_nonoverlapping(bytes.as_ptr(), buf.cast::<u8>(), bytes.len()) };
            bytes.len() as isize
        }
        Err(errno) => {
            // SAFETY: glibc's errno location is valid for the current thread.
            unsafe { *__errno_location() = errno };
            -1
        }
    }
}

#[repr(C)]
pub struct Timespec {
    tv_sec: i64,
    tv_nsec: i64,
}

unsafe extern "C" {
    fn syscall(num: std::ffi::c_long, ...) -> std::ffi::c_long;
}

const SYS_CLOCK_GETTIME: std::ffi::c_long = 228;
const SYS_GETPID: std::ffi::c_long = 39;
const SYS_GETPPID: std::ffi::c_long = 110;

/// Clock seam, in-process side. A launch thread (one with an installed plan) reads the plan's
/// simulated clock; every other thread of the harness gets the real one by raw system call, so
/// the harness's own watchdogs keep working.
///
/// # Safety
/// `ts` must be null or valid for writes, as for the libc function it replaces.
#[cfg(all(target_os = "linux", target_arch = "x86_64"))]
#[unsafe(no_mangle)]
pub unsafe extern "C" fn clock_gettime(clk: c_int, ts: *mut Timespec) -> c_int {
    let simulated = STATE
        .try_with(|s| {
            let Ok(mut s) = s.try_borrow_mut() else { return None };
            if !s.installed {
                return None;
            }
            let total = s.clock_step_ns.wrapping_mul(s.clock_reads);
            s.clock_reads += 1;
            Some((s.clock_base.wrapping_add(total / 1_000_000_000), total % 1_000_000_000))
        })
        .unwrap_or(None);
    match simulated {
        Some((sec, nsec)) => {
            if !ts.is_null() {
                // SAFETY: the caller guarantees `ts` is valid for writes.
                unsafe {
                    (*ts).tv_sec = sec as i64;
                    (*ts).tv_nsec = nsec as i64;
                }
            }
            0
        }
        // SAFETY: plain system call with the caller's arguments.
        None => unsafe { syscall(SYS_CLOCK_GETTIME, clk, ts) as c_int },
    }
}

/// Process-identity seam, in-process side.
#[cfg(all(target_os = "linux", target_arch = "x86_64"))]
#[unsafe(no_mangle)]
pub extern "C" fn getpid() -> c_int {
    let simulated = STATE
        .try_with(|s| {
            let Ok(mut s) = s.try_borrow_mut() else { return None };
            if !s.installed {
                return None;
            }
            s.pid_reads += 1;
            Some(s.pid)
        })
        .unwrap_or(None);
    match simulated {
        Some(pid) => pid as c_int,
        // SAFETY: plain system call without arguments.
        None => unsafe { syscall(SYS_GETPID) as c_int },
    }
}

/// Parent identity, in-process side: the plan's pid minus one for launch threads.
#[cfg(all(target_os = "linux", target_arch = "x86_64"))]
#[unsafe(no_mangle)]
pub extern "C" fn getppid() -> c_int {
    let simulated = STATE
        .try_with(|s| {
            let Ok(mut s) = s.try_borrow_mut() else { return None };
            if !s.installed {
                return None;
            }
            s.pid_reads += 1;
            Some(s.pid.wrapping_sub(1))
        })
        .unwrap_or(None);
    match simulated {
        Some(pid) => pid as c_int,
        // SAFETY: plain system call without arguments.
        None => unsafe { syscall(SYS_GETPPID) as c_int },
    }
}

const SYS_SCHED_GETAFFINITY: std::ffi::c_long = 204;

/// Processor-count seam, in-process side: a launch thread sees only the first 1 + key[4] % 8 of
/// the processors it really may run on (as in the exec tier's shim).
#[cfg(all(target_os = "linux", target_arch = "x86_64"))]
#[unsafe(no_mangle)]
pub unsafe extern "C" fn sched_getaffinity(pid: c_int, size: usize, mask: *mut u8) -> c_int {
    // SAFETY: the caller's buffer is `size` bytes, as the system call requires.
    let written = unsafe { syscall(SYS_SCHED_GETAFFINITY, pid as std::ffi::c_long, size, mask) };
    if written < 0 {
        return -1;
    }
    let written = written as usize;
    // SAFETY: `mask` points to `size` writable bytes (contract of sched_getaffinity).
    let bytes = unsafe { std::slice::from_raw_parts_mut(mask, size) };
    for b in bytes.iter_mut().skip(written) {
        *b = 0;
    }
    let want = STATE
        .try_with(|s| s.try_borrow().ok().filter(|s| s.installed).map(|s| 1 + usize::from(s.key[4]) % 8))
        .unwrap_or(None);
    if let Some(want) = want {
        let mut seen = 0usize;
        for i in 0..size * 8 {
            let bit = 1u8 << (i % 8);
            if bytes[i / 8] & bit != 0 {
                if seen >= want {
                    bytes[i / 8] &= !bit;
                } else {
                    seen += 1;
                }
            }
        }
    }
    0
}

const SYS_OPENAT: std::ffi::c_long = 257;
const SYS_MEMFD_CREATE: std::ffi::c_long = 319;
const AT_FDCWD: std::ffi::c_long = -100;
const O_LARGEFILE: c_int = 0;

unsafe extern "C" {
    fn write(fd: c_int, buf: *const c_void, count: usize) -> isize;
    fn lseek(fd: c_int, off: i64, whence: c_int) -> i64;
}

/// Memory-statistics seam, in-process side: a launch thread that opens /proc/self/status gets the
/// real file with the resident-set figures replaced by the plan's; every other open of every
/// thread is passed to the kernel unchanged.
///
/// # Safety
/// `path` must be a valid C string, as for the libc function it replaces.
#[cfg(all(target_os = "linux", target_arch = "x86_64"))]
#[unsafe(no_mangle)]
pub unsafe extern "C" fn open64(path: *const std::ffi::c_char, flags: c_int, mode: c_uint) -> c_int {
    // SAFETY: the caller guarantees a valid C string.
    let name = unsafe { std::ffi::CStr::from_ptr(path) }.to_bytes();
    // the kernel's random devices, uptime and load: the machine speaking, not the input
    let kernel_id = name == b"/proc/sys/kernel/random/uuid" || name == b"/proc/sys/kernel/random/boot_id";
    if name == b"/dev/urandom" || name == b"/dev/random" || name == b"/proc/uptime" || name == b"/proc/loadavg" || kernel_id {
        let plan = STATE
            .try_with(|s| s.try_borrow().ok().filter(|s| s.installed).map(|s| (s.key, s.clock_base, s.clock_step_ns, s.pid)))
            .unwrap_or(None);
        if let Some((key, clock_base, clock_step, pid)) = plan {
            let content: Vec<u8> = if name.starts_with(b"/dev/") {
                let mut st = tail_seed(&key) ^ 0x7572_6e64;
                let mut v: Vec<u8> = (0..65536).map(|_| (splitmix(&mut st) & 0xff) as u8).collect();
                v[..16].copy_from_slice(&key);
                v
            } else if kernel_id {
                let k = &key;
                format!(
                    "{:02x}{:02x}{:02x}{:02x}-{:02x}{:02x}-4{:01x}{:02x}-8{:01x}{:02x}-{:02x}{:02x}{:02x}{:02x}{:02x}{:02x}\n",
                    k[0], k[1], k[2], k[3], k[4], k[5], k[6] & 15, k[7], k[8] & 15, k[9], k[10], k[11], k[12], k[13], k[14], k[15]
                )
                .into_bytes()
            } else if name == b"/proc/uptime" {
                format!("{}.{:02} {}.00\n", clock_base % 10_000_000, clock_step % 100, clock_base % 777_777).into_bytes()
            } else {
                format!("{}.{:02} 0.50 0.25 1/{} {}\n", key[0] % 16, key[1] % 100, 100 + u32::from(key[2]), pid).into_bytes()
            };
            // SAFETY: raw system calls on descriptors owned by this function.
            unsafe {
                let fd = syscall(SYS_MEMFD_CREATE, c"gramsim-file".as_ptr(), 0) as c_int;
                if fd >= 0 {
                    write(fd, content.as_ptr().cast(), content.len());
                    lseek(fd, 0, 0);
                    let _ = STATE.try_with(|s| {
                        if let Ok(mut s) = s.try_borrow_mut() {
                            s.pid_reads += 1;
                        }
                    });
                    return fd;
                }
            }
        }
    }
    // CPU time accounted to the process / thread: follows the clock plan (ticks = step in ms)
    if name == b"/proc/self/stat" || name == b"/proc/thread-self/stat" {
        // CPU time follows the clock plan and advances with every reading (so that a budget
        // measured from a first reading is crossed, or not, as the plan says)
        let plan = STATE
            .try_with(|s| {
                s.try_borrow_mut().ok().filter(|s| s.installed).map(|mut s| {
                    s.clock_reads += 1;
                    (s.clock_step_ns.saturating_mul(s.clock_reads), s.pid)
                })
            })
            .unwrap_or(None);
        if let Some((elapsed, pid)) = plan {
            let ticks = elapsed / 1_000_000;
            let content = format!(
                "{pid} (gram) R {} {pid} {pid} 0 -1 4194304 100 0 0 0 {ticks} {ticks} 0 0 20 0 2 0 100 100000000 2000 18446744073709551615 1 1 0 0 0 0 0 0 0 0 0 0 17 0 0 0 0 0 0 0 0 0 0 0 0 0 0\n",
                pid.wrapping_sub(1)
            );
            // SAFETY: raw system calls on descriptors owned by this function.
            unsafe {
                let fd = syscall(SYS_MEMFD_CREATE, c"gramsim-stat".as_ptr(), 0) as c_int;
                if fd >= 0 {
                    write(fd, content.as_ptr().cast(), content.len());
                    lseek(fd, 0, 0);
                    return fd;
                }
            }
        }
    }
    if name == b"/proc/meminfo" {
        let rss = STATE
            .try_with(|s| s.try_borrow().ok().filter(|s| s.installed).map(|s| s.rss_kib))
            .unwrap_or(None);
        if let Some(rss) = rss {
            let total: u64 = 64 << 20;
            let avail = if rss >= 2_000_000 { 2048 } else { total - (rss * 16) % total };
            let content = format!(
                "MemTotal:       {total} kB\nMemFree:        {avail} kB\nMemAvailable:   {avail} kB\nBuffers:               0 kB\nCached:                0 kB\nSwapTotal:             0 kB\nSwapFree:              0 kB\n"
            );
            // SAFETY: as above.
            unsafe {
                let fd = syscall(SYS_MEMFD_CREATE, c"gramsim-meminfo".as_ptr(), 0) as c_int;
                if fd >= 0 {
                    write(fd, content.as_ptr().cast(), content.len());
                    lseek(fd, 0, 0);
                    return fd;
                }
            }
        }
    }
    let wanted = name == b"/proc/self/status";
    if wanted {
        let rss = STATE
            .try_with(|s| s.try_borrow().ok().filter(|s| s.installed).map(|s| s.rss_kib))
            .unwrap_or(None)
            .unwrap_or(0);
        if rss > 0 {
            // SAFETY: raw system calls on a path / descriptors owned by this function.
            unsafe {
                let real = syscall(SYS_OPENAT, AT_FDCWD, path, 0x80000 /* O_RDONLY|O_CLOEXEC */, 0) as c_int;
                if real >= 0 {
                    let mut buf = vec![0u8; 16384];
                    let n = syscall(0 /* read */, real, buf.as_mut_ptr(), buf.len()) as isize;
                    syscall(3 /* close */, real);
                    if n > 0 {
                        let text = String::from_utf8_lossy(&buf[..n as usize]).into_owned();
                        let mut out = String::new();
                        for line in text.lines() {
                            if line.starts_with("VmRSS:") || line.starts_with("VmHWM:") || line.starts_with("RssAnon:") {
                                let name = line.split(':').next().unwrap_or("");
                                out.push_str(&format!("{name}:\t{rss:8} kB\n"));
                            } else {
                                out.push_str(line);
                                out.push('\n');
                            }
                        }
                        let fd = syscall(SYS_MEMFD_CREATE, c"gramsim-proc".as_ptr(), 0) as c_int;
                        if fd >= 0 {
                            write(fd, out.as_ptr().cast(), out.len());
                            lseek(fd, 0, 0);
                            let _ = STATE.try_with(|s| {
                                if let Ok(mut s) = s.try_borrow_mut() {
                                    s.pid_reads += 1;
                                }
                            });
                            return fd;
                        }
                    }
                }
            }
        }
    }
    // SAFETY: plain system call with the caller's arguments.
    unsafe { syscall(SYS_OPENAT, AT_FDCWD, path, flags | O_LARGEFILE, mode) as c_int }
}

/// What a launch thread is told by the resource-accounting calls (see the shim: getrusage, times,
/// clock, sysinfo, sched_getcpu). `None` for threads that are not launches.
fn accounting_plan(advance: bool) -> Option<(u64, u64, [u8; 16], u64)> {
    STATE
        .try_with(|s| {
            let Ok(mut s) = s.try_borrow_mut() else { return None };
            if !s.installed {
                return None;
            }
            if advance {
                s.clock_reads += 1;
            }
            s.pid_reads += 1;
            Some((s.clock_step_ns.saturating_mul(s.clock_reads), s.rss_kib, s.key, s.clock_base))
        })
        .unwrap_or(None)
}

const SYS_GETRUSAGE: std::ffi::c_long = 98;
const SYS_TIMES: std::ffi::c_long = 100;
const SYS_SYSINFO: std::ffi::c_long = 99;
const SYS_GETCPU: std::ffi::c_long = 309;

/// `struct rusage`: two timevals, then fourteen longs starting with `ru_maxrss`.
#[repr(C)]
pub struct Rusage {
    utime: [i64; 2],
    stime: [i64; 2],
    rest: [i64; 14],
}

/// Resource-usage seam, in-process side.
///
/// # Safety
/// `ru` must be null or valid for writes, as for the libc function it replaces.
#[cfg(all(target_os = "linux", target_arch = "x86_64"))]
#[unsafe(no_mangle)]
pub unsafe extern "C" fn getrusage(who: c_int, ru: *mut Rusage) -> c_int {
    // SAFETY: plain system call with the caller's arguments.
    let r = unsafe { syscall(SYS_GETRUSAGE, who as std::ffi::c_long, ru) } as c_int;
    if r != 0 || ru.is_null() {
        return r;
    }
    if let Some((ns, rss, key, _)) = accounting_plan(true) {
        // SAFETY: the kernel has just filled `*ru`.
        let ru = unsafe { &mut *ru };
        ru.utime = [(ns / 1_000_000_000) as i64, (ns % 1_000_000_000 / 1000) as i64];
        ru.stime = ru.utime;
        if rss > 0 {
            ru.rest[0] = rss as i64;
        }
        ru.rest[4] = 100 + 37 * i64::from(key[6]); // minflt
        ru.rest[5] = i64::from(key[7] % 4); // majflt
        ru.rest[7] = 8 * i64::from(key[10] % 8); // inblock
        ru.rest[8] = 0; // oublock
        ru.rest[12] = i64::from(key[8]); // nvcsw
        ru.rest[13] = i64::from(key[9]); // nivcsw
    }
    0
}

/// # Safety
/// `buf` must be null or valid for four `clock_t`s.
#[cfg(all(target_os = "linux", target_arch = "x86_64"))]
#[unsafe(no_mangle)]
pub unsafe extern "C" fn times(buf: *mut [i64; 4]) -> i64 {
    match accounting_plan(true) {
        Some((ns, _, _, base)) => {
            let ticks = (ns / 10_000_000) as i64;
            if !buf.is_null() {
                // SAFETY: the caller guarantees `buf` is valid for writes.
                unsafe { *buf = [ticks, ticks, 0, 0] };
            }
            (base % 10_000_000) as i64 * 100 + ticks
        }
        // SAFETY: plain system call with the caller's argument.
        None => unsafe { syscall(SYS_TIMES, buf) },
    }
}

#[cfg(all(target_os = "linux", target_arch = "x86_64"))]
#[unsafe(no_mangle)]
pub extern "C" fn clock() -> i64 {
    match accounting_plan(true) {
        Some((ns, _, _, _)) => (ns / 1000) as i64,
        None => {
            let mut ts = Timespec { tv_sec: 0, tv_nsec: 0 };
            // SAFETY: plain system call on a local.
            if unsafe { syscall(SYS_CLOCK_GETTIME, 2 /* CLOCK_PROCESS_CPUTIME_ID */, &mut ts) } != 0 {
                return -1;
            }
            ts.tv_sec * 1_000_000 + ts.tv_nsec / 1000
        }
    }
}

/// `struct sysinfo` on x86-64 Linux.
#[repr(C)]
pub struct SysInfo {
    uptime: i64,
    loads: [u64; 3],
    totalram: u64,
    freeram: u64,
    sharedram: u64,
    bufferram: u64,
    totalswap: u64,
    freeswap: u64,
    procs: u16,
    pad: u16,
    totalhigh: u64,
    freehigh: u64,
    mem_unit: u32,
}

/// # Safety
/// `info` must be null or valid for writes of a `struct sysinfo`.
#[cfg(all(target_os = "linux", target_arch = "x86_64"))]
#[unsafe(no_mangle)]
pub unsafe extern "C" fn sysinfo(info: *mut SysInfo) -> c_int {
    // SAFETY: plain system call with the caller's argument.
    let r = unsafe { syscall(SYS_SYSINFO, info) } as c_int;
    if r != 0 || info.is_null() {
        return r;
    }
    if let Some((_, rss, key, base)) = accounting_plan(false) {
        // SAFETY: the kernel has just filled `*info`.
        let info = unsafe { &mut *info };
        let unit = u64::from(info.mem_unit.max(1));
        let total_kib: u64 = 64 << 20;
        let avail_kib = if rss >= 2_000_000 {
            2048
        } else if rss > 0 && rss < total_kib {
            total_kib - (rss * 16) % total_kib
        } else {
            1024
        };
        info.uptime = (base % 10_000_000) as i64;
        info.totalram = total_kib * 1024 / unit;
        info.freeram = avail_kib * 1024 / unit;
        info.bufferram = 0;
        info.sharedram = 0;
        info.totalswap = 0;
        info.freeswap = 0;
        info.loads = [u64::from(key[0] % 16) << 16, 1 << 15, 1 << 14];
        info.procs = 100 + u16::from(key[2]);
    }
    0
}

#[cfg(all(target_os = "linux", target_arch = "x86_64"))]
#[unsafe(no_mangle)]
pub extern "C" fn sched_getcpu() -> c_int {
    match accounting_plan(false) {
        Some((_, _, key, _)) => c_int::from(key[5] % 16),
        None => {
            let mut cpu: c_uint = 0;
            // SAFETY: plain system call on a local.
            if unsafe { syscall(SYS_GETCPU, &mut cpu, std::ptr::null_mut::<c_uint>(), std::ptr::null_mut::<c_void>()) } != 0 {
                return -1;
            }
            cpu as c_int
        }
    }
}

const SYS_READ: std::ffi::c_long = 0;
const SYS_FSTAT: std::ffi::c_long = 5;

/// Short-read seam, in-process side: a launch thread's reads of regular files deliver
/// 1..=read_chunk bytes per call and the first `read_eintr` of them are interrupted, exactly as
/// in the exec tier's shim. Every other read of every thread goes to the kernel unchanged.
///
/// # Safety
/// `buf` must be valid for `count` bytes, as for the libc function it replaces.
#[cfg(all(target_os = "linux", target_arch = "x86_64"))]
#[unsafe(no_mangle)]
pub unsafe extern "C" fn read(fd: c_int, buf: *mut c_void, count: usize) -> isize {
    let mut count = count;
    let limit = STATE
        .try_with(|s| s.try_borrow().ok().filter(|s| s.installed && s.read_chunk > 0 && s.short_reads < 2000).map(|s| s.read_chunk))
        .unwrap_or(None);
    if let (Some(_), true) = (limit, count > 0) {
        let mut st = [0u64; 18]; // struct stat is 144 bytes; st_mode is the u32 at offset 24
        // SAFETY: plain system call on a local buffer of the right size.
        let regular = unsafe { syscall(SYS_FSTAT, fd as std::ffi::c_long, st.as_mut_ptr()) } == 0
            && ((st[3] & 0xffff_ffff) as u32 & 0o170_000) == 0o100_000;
        if regular {
            let decision = STATE
                .try_with(|s| {
                    let Ok(mut s) = s.try_borrow_mut() else { return None };
                    if s.read_eintr > 0 {
                        s.read_eintr -= 1;
                        s.short_reads += 1;
                        return Some(Err(()));
                    }
                    let mut t = s.read_state;
                    let want = 1 + (splitmix(&mut t) % u64::from(s.read_chunk)) as usize;
                    s.read_state = t;
                    if want < count {
                        s.short_reads += 1;
                    }
                    Some(Ok(want))
                })
                .unwrap_or(None);
            match decision {
                Some(Err(())) => {
                    // SAFETY: glibc's errno location is valid for the current thread.
                    unsafe { *__errno_location() = EINTR };
                    return -1;
                }
                Some(Ok(want)) => count = count.min(want),
                None => {}
            }
        }
    }
    // SAFETY: plain system call with the caller's arguments.
    unsafe { syscall(SYS_READ, fd as std::ffi::c_long, buf, count) as isize }
}
