//! Process isolation for the in-process tier.
//!
//! The worker process itself never runs gram code. Every group runs in a child forked from the
//! (clean, single-threaded, ASLR-off) worker, so that (a) a stack exhaustion or abort inside gram
//! ends that child only, (b) every group starts from the same heap and the same untouched
//! process-wide state, which makes the addresses and statics a launch sees a function of the
//! group's own history, and (c) for groups with `isolation = "process"` every single launch gets
//! a process of its own, so that lazily initialised statics (`LazyLock`, `OnceLock`,
//! `lazy_static`) are initialised afresh under each launch's plan, exactly as in a real launch.

use std::ffi::{c_int, c_ulong, c_void};
use std::time::{Duration, Instant};

#[repr(C)]
struct PollFd {
    fd: c_int,
    events: i16,
    revents: i16,
}

unsafe extern "C" {
    fn fork() -> c_int;
    fn pipe(fds: *mut c_int) -> c_int;
    fn close(fd: c_int) -> c_int;
    fn read(fd: c_int, buf: *mut c_void, count: usize) -> isize;
    fn write(fd: c_int, buf: *const c_void, count: usize) -> isize;
    fn waitpid(pid: c_int, status: *mut c_int, options: c_int) -> c_int;
    fn kill(pid: c_int, sig: c_int) -> c_int;
    fn _exit(code: c_int) -> !;
    fn poll(fds: *mut PollFd, nfds: c_ulong, timeout_ms: c_int) -> c_int;
    fn prctl(option: c_int, arg2: c_ulong, arg3: c_ulong, arg4: c_ulong, arg5: c_ulong) -> c_int;
}

pub enum ChildEnd {
    /// The child wrote its reply and exited.
    Replied(String),
    /// The child ended without a (complete) reply: "signal N" or "exit N".
    Died(String),
    /// The wall-clock cap passed; the child was killed.
    TimedOut,
}

/// Run `f` in a forked child and return what it wrote. Must be called from a process with no
/// other running thread (true for the worker's main thread between launches).
pub fn in_child<F: FnOnce() -> String>(timeout: Duration, f: F) -> ChildEnd {
    let mut fds = [0 as c_int; 2];
    // SAFETY: plain pipe/fork/read/write/waitpid on descriptors this function owns.
    unsafe {
        if pipe(fds.as_mut_ptr()) != 0 {
            return ChildEnd::Died("pipe failed".to_owned());
        }
        let pid = fork();
        if pid < 0 {
            close(fds[0]);
            close(fds[1]);
            return ChildEnd::Died("fork failed".to_owned());
        }
        if pid == 0 {
            close(fds[0]);
            // die with the parent (driver watchdog kills the worker: nothing must linger)
            prctl(1, 9, 0, 0, 0);
            let reply = f();
            let bytes = reply.as_bytes();
            let mut off = 0usize;
            while off < bytes.len() {
                let n = write(fds[1], bytes[off..].as_ptr().cast(), bytes.len() - off);
                if n <= 0 {
                    _exit(3);
                }
                off += n as usize;
            }
            close(fds[1]);
            _exit(0);
        }
        close(fds[1]);
        let deadline = Instant::now() + timeout;
        let mut data: Vec<u8> = vec![];
        let mut timed_out = false;
        loop {
            let now = Instant::now();
            if now >= deadline {
                timed_out = true;
                break;
            }
            let ms = (deadline - now).as_millis().min(60_000) as c_int;
            let mut pfd = PollFd { fd: fds[0], events: 1, revents: 0 };
            let r = poll(&mut pfd, 1, ms.max(1));
            if r <= 0 {
                continue;
            }
            let mut chunk = [0u8; 65536];
            let n = read(fds[0], chunk.as_mut_ptr().cast(), chunk.len());
            if n == 0 {
                break;
            }
            if n < 0 {
                continue;
            }
            data.extend_from_slice(&chunk[..n as usize]);
        }
        close(fds[0]);
        if timed_out {
            kill(pid, 9);
        }
        let mut status: c_int = 0;
        while waitpid(pid, &mut status, 0) < 0 {
            if std::io::Error::last_os_error().raw_os_error() != Some(4) {
                break;
            }
        }
        if timed_out {
            return ChildEnd::TimedOut;
        }
        let exited_ok = status & 0x7f == 0 && (status >> 8) & 0xff == 0;
        if exited_ok {
            ChildEnd::Replied(String::from_utf8_lossy(&data).into_owned())
        } else if status & 0x7f != 0 {
            ChildEnd::Died(format!("signal {}", status & 0x7f))
        } else {
            ChildEnd::Died(format!("exit {}", (status >> 8) & 0xff))
        }
    }
}
