//! In-process tier: one simulated launch = one fresh 16 MiB-stack thread whose entropy the
//! simulator chose, running the repository's real library stages.
//!
//! Only `main.rs` is a stub here: `run_stub` mirrors `main.rs run` (same stage order, same
//! `collect_errors` folding, same output formatting). `evaluate` is the repository's own, called
//! after a step-budgeted pre-flight of the same loop has shown that the program terminates, so
//! that a divergent program written in gram cannot stall the simulator.

use crate::error::Error;
use crate::evaluator::{evaluate, step};
use crate::format::CodeStr;
use crate::parser::parse;
use crate::sim_entropy::{self, CallLog, Plan};
use crate::tokenizer::tokenize;
use crate::type_checker::type_check;
use serde_json::{Value, json};
use std::path::Path;

/// Set in the forked child of a process-per-launch group: the repository's `evaluate` is called
/// even when the step-budgeted pre-flight did not see the program terminate (the parent's
/// wall-clock cap ends a launch that really diverges). Lets a change that makes divergent programs
/// end - a loop detector, a fuel limit - be observed at all.
pub static EVALUATE_EVEN_IF_CAPPED: std::sync::atomic::AtomicBool = std::sync::atomic::AtomicBool::new(false);

/// Same as `main.rs STACK_SIZE`.
pub const STACK_SIZE: usize = 16 * 1024 * 1024;

/// What one launch showed, per observation point named by C13.
#[derive(Clone, Debug, PartialEq, Eq)]
pub struct Obs {
    /// The stage that ended the launch: tokenize | parse | type_check | evaluate | done.
    pub stage: String,
    /// `Display` of every `Error` of the failing stage's `Vec<Error>`, in order.
    pub errors: Vec<String>,
    /// What `gram check FILE` would have put on stdout / stderr, and its exit status.
    pub check_out: String,
    pub check_err: String,
    pub check_status: i32,
    /// The same for `gram run FILE` (`capped` = the step budget ran out; nothing is compared).
    pub run_out: String,
    pub run_err: String,
    pub run_status: i32,
    pub capped: bool,
}

impl Obs {
    pub fn to_json(&self) -> Value {
        json!({
            "stage": self.stage,
            "errors": self.errors,
            "check_out": self.check_out,
            "check_err": self.check_err,
            "check_status": self.check_status,
            "run_out": self.run_out,
            "run_err": self.run_err,
            "run_status": self.run_status,
            "capped": self.capped,
        })
    }
}

// Mirror of the `collect_errors` closure in `main.rs run`.
fn collect_errors(errors: &[Error]) -> String {
    errors
        .iter()
        .fold(String::new(), |acc, error| {
            format!(
                "{}\n{}{}",
                acc,
                if acc
                    .split('\n')
                    .next_back()
                    .unwrap()
                    .chars()
                    .all(|c| c == ' ' || c == '\u{203e}')
                {
                    ""
                } else {
                    "\n"
                },
                error,
            )
        })
        .trim()
        .to_owned()
}

fn failed(stage: &str, errors: &[Error]) -> Obs {
    let message = Error {
        message: collect_errors(errors),
        reason: None,
    };
    // `main` does `eprintln!("{e}")`.
    let err = format!("{message}\n");
    Obs {
        stage: stage.to_owned(),
        errors: errors.iter().map(ToString::to_string).collect(),
        check_out: String::new(),
        check_err: err.clone(),
        check_status: 1,
        run_out: String::new(),
        run_err: err,
        run_status: 1,
        capped: false,
    }
}

/// The stub of `main.rs run`, computing the `check` and the `run` observation in one pass.
pub fn run_stub(path: &str, source: &str, step_budget: u64) -> Obs {
    let source_path = Path::new(path);

    let tokens = match tokenize(Some(source_path), source) {
        Ok(tokens) => tokens,
        Err(errors) => return failed("tokenize", &errors),
    };

    let term = match parse(Some(source_path), source, &tokens[..], &[]) {
        Ok(term) => term,
        Err(errors) => return failed("parse", &errors),
    };

    let mut typing_context = vec![];
    let mut definitions_context = vec![];
    let (elaborated_term, elaborated_type) = match type_check(
        Some(source_path),
        source,
        &term,
        &mut typing_context,
        &mut definitions_context,
    ) {
        Ok(pair) => pair,
        Err(errors) => return failed("type_check", &errors),
    };

    let check_out = format!(
        "Elaborated term:\n\n{}\n\nElaborated type:\n\n{}\n",
        elaborated_term.to_string().code_str(),
        elaborated_type.to_string().code_str(),
    );

    // Pre-flight with a step budget: the same loop as `evaluate`, only to learn whether the
    // program terminates within the budget, so that a divergent program written in gram cannot
    // stall the simulator.
    let mut current = elaborated_term.clone();
    let mut steps: u64 = 0;
    let mut capped = false;
    while let Some(stepped) = step(&current) {
        current = stepped;
        steps += 1;
        if steps >= step_budget {
            capped = true;
            break;
        }
    }
    drop(current);

    // The observation itself comes from the repository's real `evaluate`.
    let force = EVALUATE_EVEN_IF_CAPPED.load(std::sync::atomic::Ordering::Relaxed);
    let capped = capped && !force;
    let (stage, run_out, run_err, run_status) = if capped {
        ("evaluate", String::new(), String::new(), -1)
    } else {
        match evaluate(&elaborated_term) {
            Ok(value) => ("done", format!("{}\n", value.to_string().code_str()), String::new(), 0),
            Err(error) => ("evaluate", String::new(), format!("{error}\n"), 1),
        }
    };

    Obs {
        stage: stage.to_owned(),
        errors: vec![],
        check_out,
        check_err: String::new(),
        check_status: 0,
        run_out,
        run_err,
        run_status,
        capped,
    }
}

/// One simulated launch. Returns `None` if the launch thread panicked (the panic message is
/// returned instead); a stack overflow or an abort takes the whole worker process down, which the
/// driver observes from outside.
pub fn launch(
    path: &str,
    source: &str,
    plan: &Plan,
    step_budget: u64,
) -> Result<(Obs, CallLog, Vec<Vec<usize>>), String> {
    let path = path.to_owned();
    let source = source.to_owned();
    let plan = plan.clone();
    let _stack_displacement = StackDisplacement::new(&plan);
    let handle = std::thread::Builder::new()
        .stack_size(STACK_SIZE)
        .spawn(move || {
            sim_entropy::install(&plan);
            // Layout seam, in-process side: displace this thread's heap for the duration of the
            // launch by the amount the plan chose.
            let displacement: Vec<u8> = Vec::with_capacity(plan.skew_heap as usize);
            std::hint::black_box(&displacement);
            // "repeated calls": earlier runs on the same thread advance the thread's RandomState
            // counter and warm any process-wide state; only the last run is observed.
            for _ in 0..plan.repeat {
                let _ = run_stub(&path, &source, step_budget);
            }
            let obs = run_stub(&path, &source, step_budget);
            // Reach probe, after the launch so that it cannot disturb it: the iteration orders the
            // thread's next RandomStates induce on {0..n}, n = 2..=6.
            let orders = (2..=6usize)
                .map(|n| {
                    let set: std::collections::HashSet<usize> = (0..n).collect();
                    set.into_iter().collect::<Vec<usize>>()
                })
                .collect();
            drop(displacement);
            (obs, sim_entropy::take_log(), orders)
        })
        .map_err(|e| format!("spawn failed: {e}"))?;
    handle.join().map_err(|e| {
        if let Some(s) = e.downcast_ref::<String>() {
            format!("panic: {s}")
        } else if let Some(s) = e.downcast_ref::<&str>() {
            format!("panic: {s}")
        } else {
            "panic".to_owned()
        }
    })
}

/// Reach probe: the iteration orders that the first RandomStates of a thread keyed by `plan`
/// induce on {0..n}, n = 2..=6.
pub fn iteration_orders(plan: &Plan) -> Vec<Vec<usize>> {
    let plan = plan.clone();
    std::thread::spawn(move || {
        sim_entropy::install(&plan);
        (2..=6usize)
            .map(|n| {
                let set: std::collections::HashSet<usize> = (0..n).collect();
                set.into_iter().collect::<Vec<usize>>()
            })
            .collect()
    })
    .join()
    .unwrap_or_default()
}

unsafe extern "C" {
    fn mmap(addr: *mut std::ffi::c_void, len: usize, prot: std::ffi::c_int, flags: std::ffi::c_int, fd: std::ffi::c_int, off: i64) -> *mut std::ffi::c_void;
    fn munmap(addr: *mut std::ffi::c_void, len: usize) -> std::ffi::c_int;
    fn dup(fd: std::ffi::c_int) -> std::ffi::c_int;
    fn dup2(old: std::ffi::c_int, new: std::ffi::c_int) -> std::ffi::c_int;
}

/// Whether this harness was built with the repository's real `main.rs run` mounted.
pub fn real_main_available() -> bool {
    cfg!(feature = "real_main")
}

/// Detach the worker's request/reply channel from fd 1, so that fd 1 and fd 2 are free to be
/// pointed at capture files while the repository's `run` prints. Returns the reply channel.
pub fn detach_stdout() -> Option<std::fs::File> {
    use std::os::fd::{AsRawFd, FromRawFd};
    // SAFETY: dup/dup2 on this process's own descriptors.
    unsafe {
        let proto = dup(1);
        if proto < 0 {
            return None;
        }
        let devnull = std::fs::OpenOptions::new().write(true).open("/dev/null").ok()?;
        dup2(devnull.as_raw_fd(), 1);
        dup2(devnull.as_raw_fd(), 2);
        Some(std::fs::File::from_raw_fd(proto))
    }
}

/// What the repository's own `run` printed and how `main` would have exited.
pub struct RealRun {
    pub stdout: String,
    pub stderr: String,
    pub status: i32,
}

/// Call the repository's real `main.rs run` (file reading, every stage, `collect_errors`, output
/// formatting) on the current thread, with fd 1 / fd 2 pointed at capture files for the duration.
/// Only `main`'s last three lines (`eprintln!("{e}"); exit(1)`) and clap are still mirrored.
/// The caller guarantees that no other thread of this process prints meanwhile.
#[cfg(feature = "real_main")]
pub fn run_real(path: &str, check_only: bool, capture_dir: &Path) -> Option<RealRun> {
    use std::io::{Read, Seek, Write};
    use std::os::fd::AsRawFd;
    let open = |name: &str| {
        std::fs::OpenOptions::new()
            .read(true)
            .write(true)
            .create(true)
            .truncate(true)
            .open(capture_dir.join(name))
            .ok()
    };
    let mut out = open("inproc.out")?;
    let mut err = open("inproc.err")?;
    let devnull = std::fs::OpenOptions::new().write(true).open("/dev/null").ok()?;
    let _ = std::io::stdout().flush();
    // SAFETY: dup2 on this process's own descriptors.
    unsafe {
        dup2(out.as_raw_fd(), 1);
        dup2(err.as_raw_fd(), 2);
    }
    let result = crate::gram_main::run(Path::new(path), check_only);
    let status = match result {
        Ok(()) => 0,
        Err(e) => {
            // `main`: `eprintln!("{e}"); exit(1);`
            eprintln!("{e}");
            1
        }
    };
    let _ = std::io::stdout().flush();
    // SAFETY: as above.
    unsafe {
        dup2(devnull.as_raw_fd(), 1);
        dup2(devnull.as_raw_fd(), 2);
    }
    let mut stdout = String::new();
    let mut stderr = String::new();
    let mut raw = vec![];
    out.rewind().ok()?;
    out.read_to_end(&mut raw).ok()?;
    stdout.push_str(&String::from_utf8_lossy(&raw));
    raw.clear();
    err.rewind().ok()?;
    err.read_to_end(&mut raw).ok()?;
    stderr.push_str(&String::from_utf8_lossy(&raw));
    Some(RealRun { stdout, stderr, status })
}

#[cfg(not(feature = "real_main"))]
pub fn run_real(_path: &str, _check_only: bool, _capture_dir: &Path) -> Option<RealRun> {
    None
}

/// One simulated launch in "main" mode: the stage-level pass first (it yields the ordered
/// `Vec<Error>` observation and, through its step-budgeted pre-flight, tells whether evaluation
/// terminates), then the repository's real `run` for the group's command form.
pub fn launch_main(
    path: &str,
    source: &str,
    check_only: bool,
    capture_dir: &Path,
    plan: &Plan,
    step_budget: u64,
) -> Result<(Obs, Option<RealRun>, CallLog, Vec<Vec<usize>>), String> {
    let path = path.to_owned();
    let source = source.to_owned();
    let plan = plan.clone();
    let capture_dir = capture_dir.to_path_buf();
    let _stack_displacement = StackDisplacement::new(&plan);
    let handle = std::thread::Builder::new()
        .stack_size(STACK_SIZE)
        .spawn(move || {
            sim_entropy::install(&plan);
            let displacement: Vec<u8> = Vec::with_capacity(plan.skew_heap as usize);
            std::hint::black_box(&displacement);
            let obs = run_stub(&path, &source, step_budget);
            let mut real = None;
            if check_only || !obs.capped {
                for _ in 0..plan.repeat {
                    let _ = run_real(&path, check_only, &capture_dir);
                }
                real = run_real(&path, check_only, &capture_dir);
            }
            let orders = (2..=6usize)
                .map(|n| {
                    let set: std::collections::HashSet<usize> = (0..n).collect();
                    set.into_iter().collect::<Vec<usize>>()
                })
                .collect();
            drop(displacement);
            (obs, real, sim_entropy::take_log(), orders)
        })
        .map_err(|e| format!("spawn failed: {e}"))?;
    handle.join().map_err(|e| {
        // a panic inside `run` leaves fd 1 / fd 2 on the capture files: point them away again
        if let Ok(devnull) = std::fs::OpenOptions::new().write(true).open("/dev/null") {
            use std::os::fd::AsRawFd;
            // SAFETY: dup2 on this process's own descriptors.
            unsafe {
                dup2(devnull.as_raw_fd(), 1);
                dup2(devnull.as_raw_fd(), 2);
            }
        }
        if let Some(s) = e.downcast_ref::<String>() {
            format!("panic: {s}")
        } else if let Some(s) = e.downcast_ref::<&str>() {
            format!("panic: {s}")
        } else {
            "panic".to_owned()
        }
    })
}

/// Layout seam, in-process side, for the launch thread's *stack*: an address-space reservation
/// made just before the thread is spawned moves the stack mapping the thread gets by that many
/// pages (thread stacks are mmap'd top-down). Only the page part of the plan's displacement is
/// used; it covers every residue modulo the 16 MiB stack size.
pub struct StackDisplacement {
    addr: *mut std::ffi::c_void,
    len: usize,
}

impl StackDisplacement {
    pub fn new(plan: &Plan) -> StackDisplacement {
        let len = (plan.skew_mmap % (16 << 20)) as usize;
        if len == 0 {
            return StackDisplacement { addr: std::ptr::null_mut(), len: 0 };
        }
        // PROT_NONE, MAP_PRIVATE | MAP_ANONYMOUS | MAP_NORESERVE
        // SAFETY: a fresh anonymous reservation that nothing else refers to.
        let addr = unsafe { mmap(std::ptr::null_mut(), len, 0, 0x02 | 0x20 | 0x4000, -1, 0) };
        if addr as isize == -1 {
            StackDisplacement { addr: std::ptr::null_mut(), len: 0 }
        } else {
            StackDisplacement { addr, len }
        }
    }
}

impl Drop for StackDisplacement {
    fn drop(&mut self) {
        if !self.addr.is_null() {
            // SAFETY: the reservation made in `new`.
            unsafe { munmap(self.addr, self.len) };
        }
    }
}

/// Point fd 2 of this (forked, single-purpose) process at a file.
pub fn redirect_stderr_to(path: &Path) {
    use std::os::fd::AsRawFd;
    if let Ok(f) = std::fs::OpenOptions::new().create(true).write(true).truncate(true).open(path) {
        // SAFETY: dup2 on this process's own descriptors.
        unsafe {
            dup2(f.as_raw_fd(), 2);
        }
    }
}
