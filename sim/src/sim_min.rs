//! Minimisation of a violation before it is reported: first the schedule (drop launches that are
//! not needed, drop delivery faults, displacement, clock/pid changes and repeats, pull the key
//! towards the reference), then the file (whole lines, then tokens, then characters), keeping a
//! candidate only while the *same kind* of difference persists. Every probe runs in a worker
//! process, so a candidate file that crashes or diverges simply does not count as a reproduction.
//!
//! A difference seen during the run must reproduce in a fresh process before it is reported. If
//! the (reference, differing) pair alone does not reproduce it, the whole launch history of the
//! group is replayed (a difference that needs earlier launches in the same process), and then the
//! file is taken to the exec tier, whose layout seam makes address-dependent behaviour replayable.

use crate::sim_args::Args;
use crate::sim_entropy::Plan;
use crate::sim_gen::{join_tokens, rough_tokens};
use crate::sim_group::{LaunchObs, Spec, Tier, derive_plans, diff_signature, kinds_in};
use crate::sim_pool::{Reply, WorkerProc};
use crate::sim_rng::Rng;
use serde_json::{Value, json};
use std::time::Duration;

pub struct Prober<'a> {
    args: &'a Args,
    worker: Option<WorkerProc>,
    pub probes: usize,
    allowed_kinds: Vec<String>,
}

pub fn obs_from_json(v: &Value) -> LaunchObs {
    let mut fields = vec![];
    let mut abnormal = None;
    if let Some(m) = v.as_object() {
        for (k, val) in m {
            let s = val.as_str().unwrap_or("").to_owned();
            if k == "abnormal" {
                abnormal = Some(s);
            } else {
                fields.push((k.clone(), s));
            }
        }
    }
    LaunchObs { abnormal, fields }
}

/// Result of one probe of a spec (all its launches, in order, in one worker process).
pub struct Probe {
    pub status: String,
    pub obs: Vec<LaunchObs>,
    /// index of the first launch that differed from launch 0
    pub differing: Option<usize>,
}

impl Probe {
    pub fn signature(&self) -> Option<(String, Vec<String>)> {
        let d = self.differing?;
        if self.status != "violation" || d >= self.obs.len() {
            return None;
        }
        Some(diff_signature(&self.obs[0], &self.obs[d]))
    }
}

impl<'a> Prober<'a> {
    pub fn new(args: &'a Args) -> Prober<'a> {
        Prober { args, worker: None, probes: 0, allowed_kinds: vec![] }
    }

    pub fn fresh_process(&mut self) {
        self.worker = None;
    }

    pub fn probe(&mut self, spec: &Spec) -> Option<Probe> {
        self.probes += 1;
        if self.worker.is_none() {
            self.worker = WorkerProc::spawn(self.args).ok();
        }
        let worker = self.worker.as_mut()?;
        let timeout = Duration::from_millis(self.args.cap_ms * (spec.plans.len() as u64) + 15_000);
        match worker.request(&json!({"job": "spec", "spec": spec.to_json()}), timeout) {
            Reply::Ok(v) => {
                let status = v.get("status").and_then(Value::as_str).unwrap_or("").to_owned();
                let obs = v
                    .get("obs")
                    .and_then(Value::as_array)
                    .map(|a| a.iter().map(obs_from_json).collect())
                    .unwrap_or_default();
                let differing = v.get("differing").and_then(Value::as_u64).map(|d| d as usize);
                Some(Probe { status, obs, differing })
            }
            Reply::TimedOut | Reply::Died(_) => {
                self.worker = None;
                None
            }
        }
    }

    /// Does the spec still show a difference with this signature, without the reference launch
    /// acquiring kinds of diagnostics the original did not have (a shrunk file should stay the
    /// same kind of program, not become token soup)?
    fn still(&mut self, spec: &Spec, class: &str, kinds: &[String]) -> bool {
        let allowed = self.allowed_kinds.clone();
        match self.probe(spec) {
            Some(p) => match p.signature() {
                Some((c, k)) => {
                    let all = kinds_in(&p.obs[0].all_text());
                    c == class && k == kinds && all.keys().all(|x| allowed.iter().any(|a| a == x))
                }
                None => false,
            },
            None => false,
        }
    }
}

pub struct Minimised {
    pub spec: Spec,
    pub obs: Vec<LaunchObs>,
    pub differing: usize,
    pub class: String,
    pub kinds: Vec<String>,
    pub probes: usize,
    pub reproduced: bool,
    /// how the difference was reproduced: pair | history | exec-tier
    pub route: String,
}

fn with_source(spec: &Spec, source: Vec<u8>) -> Spec {
    let mut s = spec.clone();
    s.source = source;
    s
}

/// Greedy chunk removal (ddmin-style, halving chunk sizes).
fn shrink_list<T: Clone>(items: &[T], budget: &mut usize, mut test: impl FnMut(&[T]) -> bool) -> Vec<T> {
    let mut cur: Vec<T> = items.to_vec();
    let mut chunk = cur.len().div_ceil(2).max(1);
    loop {
        let mut i = 0;
        let mut removed_any = false;
        while i < cur.len() && *budget > 0 {
            let end = (i + chunk).min(cur.len());
            let mut cand = cur[..i].to_vec();
            cand.extend_from_slice(&cur[end..]);
            *budget -= 1;
            if !cand.is_empty() && test(&cand) {
                cur = cand;
                removed_any = true;
            } else {
                i = end;
            }
        }
        if *budget == 0 {
            break;
        }
        if chunk == 1 {
            if !removed_any {
                break;
            }
        } else {
            chunk = chunk.div_ceil(2);
        }
    }
    cur
}

/// The spec must show the same difference in two independent fresh worker processes: a replay
/// file is only worth writing if replaying it is repeatable.
fn twice(prober: &mut Prober, spec: &Spec) -> Option<Probe> {
    prober.fresh_process();
    let a = prober.probe(spec)?;
    let sig_a = a.signature()?;
    prober.fresh_process();
    let b = prober.probe(spec)?;
    let sig_b = b.signature()?;
    if sig_a == sig_b && a.obs == b.obs { Some(b) } else { None }
}

/// Find a spec that reproduces the difference in a fresh process.
fn reproduce(prober: &mut Prober, full: &Spec, differing: usize) -> Option<(Spec, Probe, String)> {
    // 1. the pair alone
    let mut pair = full.clone();
    pair.plans = vec![full.plans[0].clone(), full.plans[differing.min(full.plans.len() - 1)].clone()];
    if let Some(p) = twice(prober, &pair) {
        return Some((pair, p, "pair".to_owned()));
    }
    // 2. the group's whole launch history, in order, in one fresh process
    let mut history = full.clone();
    history.plans.truncate(differing + 1);
    if history.plans.len() > 2 {
        if let Some(p) = twice(prober, &history) {
            return Some((history, p, "history".to_owned()));
        }
    }
    // 3. the exec tier, where the layout is the simulator's to choose
    if full.tier == Tier::InProc {
        let mut rng = Rng::derive(0xC0DE, crate::sim_rng::fnv(&full.source), differing as u64);
        for round in 0..3 {
            let mut exec = full.clone();
            exec.tier = Tier::Exec;
            exec.launcher = "exec".to_owned();
            exec.plans = derive_plans(&mut rng, Tier::Exec, 10);
            // keep the two keys that differed in-process among the candidates
            exec.plans[1].key = full.plans[differing].key;
            if round > 0 {
                exec.plans[0].key = full.plans[0].key;
            }
            prober.fresh_process();
            if let Some(p) = prober.probe(&exec) {
                if let Some(d) = p.differing {
                    if p.signature().is_some() {
                        let mut pair = exec.clone();
                        pair.plans = vec![exec.plans[0].clone(), exec.plans[d].clone()];
                        if let Some(pp) = twice(prober, &pair) {
                            return Some((pair, pp, "exec-tier".to_owned()));
                        }
                        if let Some(pp) = twice(prober, &exec) {
                            return Some((exec, pp, "exec-tier".to_owned()));
                        }
                    }
                }
            }
        }
    }
    None
}

/// Last resort: the difference is real but no schedule the simulator controls pins it down (a
/// source it does not own: thread scheduling introduced by a change, a raw system call, …).
/// Launch the pair again and again in fresh processes; if it differs at least once more, the
/// violation is reported with a replay that is marked as not deterministic and says how often it
/// showed. Both tiers are tried.
fn statistical(prober: &mut Prober, full: &Spec, differing: usize) -> Option<(Spec, Probe, usize, usize)> {
    let mut pair = full.clone();
    pair.plans = vec![full.plans[0].clone(), full.plans[differing.min(full.plans.len() - 1)].clone()];
    let mut candidates = vec![pair.clone()];
    if full.tier == Tier::InProc {
        let mut exec = pair.clone();
        exec.tier = Tier::Exec;
        exec.launcher = "exec".to_owned();
        candidates.push(exec);
    }
    for spec in candidates {
        // several launches per probe: repeat the differing plan so that one probe samples more
        let mut wide = spec.clone();
        for _ in 0..4 {
            wide.plans.push(spec.plans[1].clone());
        }
        let attempts = 12;
        let mut hits = 0;
        let mut last: Option<Probe> = None;
        for _ in 0..attempts {
            prober.fresh_process();
            if let Some(p) = prober.probe(&wide) {
                if p.signature().is_some() {
                    hits += 1;
                    last = Some(p);
                }
            }
        }
        if let Some(p) = last {
            return Some((wide, p, hits, attempts));
        }
    }
    None
}

pub fn minimise(args: &Args, full: &Spec, differing: usize) -> Minimised {
    let mut prober = Prober::new(args);
    let Some((mut spec, first, route)) = reproduce(&mut prober, full, differing) else {
        if let Some((spec, p, hits, attempts)) = statistical(&mut prober, full, differing) {
            let (class, kinds) = p.signature().unwrap_or_else(|| ("content".to_owned(), vec![]));
            return Minimised {
                spec,
                differing: p.differing.unwrap_or(1),
                obs: p.obs,
                class,
                kinds,
                probes: prober.probes,
                reproduced: true,
                route: format!("statistical ({hits} of {attempts} fresh processes differed)"),
            };
        }
        let mut pair = full.clone();
        pair.plans = vec![full.plans[0].clone(), full.plans[differing.min(full.plans.len() - 1)].clone()];
        return Minimised {
            spec: pair,
            obs: vec![],
            differing: 1,
            class: "unreproduced".to_owned(),
            kinds: vec![],
            probes: prober.probes,
            reproduced: false,
            route: "none".to_owned(),
        };
    };
    let (class, kinds) = first.signature().unwrap_or_else(|| ("content".to_owned(), vec![]));
    prober.allowed_kinds = kinds_in(&first.obs[0].all_text()).keys().map(|x| (*x).to_owned()).collect();
    let mut obs = first.obs;
    let mut diff_at = first.differing.unwrap_or(1);

    // 0. drop launches that are not needed (history route)
    if spec.plans.len() > 2 {
        spec.plans.truncate(diff_at + 1);
        let mut i = 1;
        while i + 1 < spec.plans.len() {
            let mut cand = spec.clone();
            cand.plans.remove(i);
            if prober.still(&cand, &class, &kinds) {
                spec = cand;
            } else {
                i += 1;
            }
        }
    }
    let last = spec.plans.len() - 1;

    // 1. simplify the differing plan
    let simplifications: Vec<Box<dyn Fn(&mut Plan)>> = vec![
        Box::new(|p| {
            p.eintr = 0;
            p.no_insecure = false;
            p.chunk = 0;
        }),
        Box::new(|p| {
            p.skew_heap = 0;
            p.skew_mmap = 0;
            p.env_pad = 0;
        }),
        Box::new(|p| {
            p.clock_base = crate::sim_entropy::REF_CLOCK_BASE;
            p.clock_step_ns = crate::sim_entropy::REF_CLOCK_STEP_NS;
        }),
        Box::new(|p| p.pid = crate::sim_entropy::REF_PID),
        Box::new(|p| p.rss_kib = crate::sim_entropy::REF_RSS_KIB),
        Box::new(|p| p.repeat = 0),
        Box::new(|p| p.prior_edit = 0),
        Box::new(|p| p.prior_crash = 0),
        Box::new(|p| p.overlap = 0),
        Box::new(|p| p.wait_ppm = crate::sim_entropy::REF_WAIT_PPM),
        Box::new(|p| {
            p.read_chunk = 0;
            p.read_eintr = 0;
        }),
        Box::new(|p| p.stall.clear()),
        Box::new(|p| p.linger.clear()),
    ];
    for simplify in &simplifications {
        let mut cand = spec.clone();
        simplify(&mut cand.plans[last]);
        if cand.plans[last] != spec.plans[last] && prober.still(&cand, &class, &kinds) {
            spec = cand;
        }
    }
    // 2. pull the key towards the reference key: all of it, 8 bytes at a time, then single bytes
    let ref_key = spec.plans[0].key;
    for (lo, hi) in [(0usize, 16usize), (0, 8), (8, 16)] {
        let mut cand = spec.clone();
        cand.plans[last].key[lo..hi].copy_from_slice(&ref_key[lo..hi]);
        if cand.plans[last].key != spec.plans[last].key && prober.still(&cand, &class, &kinds) {
            spec = cand;
        }
    }
    for i in 0..16 {
        if spec.plans[last].key[i] != ref_key[i] {
            let mut cand = spec.clone();
            cand.plans[last].key[i] = ref_key[i];
            if prober.still(&cand, &class, &kinds) {
                spec = cand;
            }
        }
    }
    let base_kind = spec.plans[last].kind.replace(" (minimised)", "");
    spec.plans[last].kind = format!("{base_kind} (minimised)");

    // 3. shrink the file
    let mut budget = if spec.tier == Tier::InProc { 900usize } else { 250usize };
    if let Ok(text) = String::from_utf8(spec.source.clone()) {
        // lines
        let lines: Vec<String> = text.split_inclusive('\n').map(str::to_owned).collect();
        let kept = shrink_list(&lines, &mut budget, |cand| {
            prober.still(&with_source(&spec, cand.concat().into_bytes()), &class, &kinds)
        });
        let text = kept.concat();
        spec.source = text.clone().into_bytes();
        // tokens
        let tokens = rough_tokens(&text);
        let joined = join_tokens(&tokens);
        if prober.still(&with_source(&spec, joined.clone().into_bytes()), &class, &kinds) {
            spec.source = joined.into_bytes();
            let kept = shrink_list(&tokens, &mut budget, |cand| {
                prober.still(&with_source(&spec, join_tokens(cand).into_bytes()), &class, &kinds)
            });
            spec.source = join_tokens(&kept).into_bytes();
        }
        // characters (only once the file is small)
        if let Ok(text) = String::from_utf8(spec.source.clone()) {
            if text.chars().count() <= 200 {
                let chars: Vec<char> = text.chars().collect();
                let kept = shrink_list(&chars, &mut budget, |cand| {
                    prober.still(&with_source(&spec, cand.iter().collect::<String>().into_bytes()), &class, &kinds)
                });
                spec.source = kept.iter().collect::<String>().into_bytes();
            }
        }
    }

    // Final confirmation of the minimised spec, in a fresh worker process.
    let mut reproduced = false;
    if let Some(p) = twice(&mut prober, &spec) {
        reproduced = true;
        diff_at = p.differing.unwrap_or(last);
        obs = p.obs;
    }
    if !reproduced {
        // fall back to whatever reproduced before minimisation
        if let Some((s, p, _)) = reproduce(&mut prober, full, differing) {
            reproduced = true;
            diff_at = p.differing.unwrap_or(1);
            obs = p.obs;
            spec = s;
        }
    }
    Minimised { spec, obs, differing: diff_at, class, kinds, probes: prober.probes, reproduced, route }
}
