//! Minimisation of a violation before it is reported: first the plan (drop delivery faults and
//! displacement, pull the key towards the reference), then the file (whole lines, then tokens,
//! then characters), keeping a candidate only while the *same kind* of difference persists.
//! Every probe is two launches in a worker process, so a candidate file that crashes or diverges
//! simply does not count as a reproduction.

use crate::sim_args::Args;
use crate::sim_entropy::Plan;
use crate::sim_gen::{join_tokens, rough_tokens};
use crate::sim_group::{LaunchObs, Spec, diff_signature};
use crate::sim_pool::{Reply, WorkerProc};
use serde_json::{Value, json};
use std::time::Duration;

pub struct Prober<'a> {
    args: &'a Args,
    worker: Option<WorkerProc>,
    pub probes: usize,
    allowed_kinds: Vec<String>,
}

fn obs_from_json(v: &Value) -> LaunchObs {
    let mut fields = vec![];
    let mut abnormal = None;
    if let Some(m) = v.as_object() {
        for (k, val) in m {
            let s = val.as_str().unwrap_or("").to_owned();
            if k == "abnormal" {
                abnormal = Some(s);
            } else {
                fields.push((k.clone(), s));
            }
        }
    }
    LaunchObs { abnormal, fields }
}

/// Result of one probe of a two-plan spec.
pub struct Probe {
    pub status: String,
    pub obs: Vec<LaunchObs>,
}

impl<'a> Prober<'a> {
    pub fn new(args: &'a Args) -> Prober<'a> {
        Prober { args, worker: None, probes: 0, allowed_kinds: vec![] }
    }

    pub fn probe(&mut self, spec: &Spec) -> Option<Probe> {
        self.probes += 1;
        if self.worker.is_none() {
            self.worker = WorkerProc::spawn(self.args).ok();
        }
        let worker = self.worker.as_mut()?;
        let timeout = Duration::from_millis(self.args.cap_ms * (spec.plans.len() as u64) + 15_000);
        match worker.request(&json!({"job": "spec", "spec": spec.to_json()}), timeout) {
            Reply::Ok(v) => {
                let status = v.get("status").and_then(Value::as_str).unwrap_or("").to_owned();
                let obs = v
                    .get("obs")
                    .and_then(Value::as_array)
                    .map(|a| a.iter().map(obs_from_json).collect())
                    .unwrap_or_default();
                Some(Probe { status, obs })
            }
            Reply::TimedOut | Reply::Died(_) => {
                self.worker = None;
                None
            }
        }
    }

    /// Does the two-plan spec still show a difference with this signature, without the reference
    /// launch acquiring kinds of diagnostics the original did not have (a shrunk file should stay
    /// the same kind of program, not become token soup)?
    fn still(&mut self, spec: &Spec, class: &str, kinds: &[String]) -> bool {
        let allowed = self.allowed_kinds.clone();
        match self.probe(spec) {
            Some(p) if p.status == "violation" && p.obs.len() == 2 => {
                let (c, k) = diff_signature(&p.obs[0], &p.obs[1]);
                let all = crate::sim_group::kinds_in(&p.obs[0].all_text());
                c == class && k == kinds && all.keys().all(|x| allowed.iter().any(|a| a == x))
            }
            _ => false,
        }
    }
}

pub struct Minimised {
    pub spec: Spec,
    pub obs: Vec<LaunchObs>,
    pub class: String,
    pub kinds: Vec<String>,
    pub probes: usize,
    pub reproduced: bool,
}

fn with_source(spec: &Spec, source: Vec<u8>) -> Spec {
    let mut s = spec.clone();
    s.source = source;
    s
}

/// Greedy chunk removal (ddmin-style, halving chunk sizes).
fn shrink_list<T: Clone>(
    items: &[T],
    budget: &mut usize,
    mut test: impl FnMut(&[T]) -> bool,
) -> Vec<T> {
    let mut cur: Vec<T> = items.to_vec();
    let mut chunk = cur.len().div_ceil(2).max(1);
    loop {
        let mut i = 0;
        let mut removed_any = false;
        while i < cur.len() && *budget > 0 {
            let end = (i + chunk).min(cur.len());
            let mut cand = cur[..i].to_vec();
            cand.extend_from_slice(&cur[end..]);
            *budget -= 1;
            if !cand.is_empty() && test(&cand) {
                cur = cand;
                removed_any = true;
            } else {
                i = end;
            }
        }
        if *budget == 0 {
            break;
        }
        if chunk == 1 {
            if !removed_any {
                break;
            }
        } else {
            chunk = chunk.div_ceil(2);
        }
    }
    cur
}

pub fn minimise(args: &Args, full: &Spec, differing: usize) -> Minimised {
    let mut prober = Prober::new(args);
    let mut spec = full.clone();
    spec.plans = vec![full.plans[0].clone(), full.plans[differing].clone()];

    // Establish the signature from a fresh probe of the pair.
    let first = prober.probe(&spec);
    let (class, kinds, mut obs) = match first {
        Some(p) if p.status == "violation" && p.obs.len() == 2 => {
            let (c, k) = diff_signature(&p.obs[0], &p.obs[1]);
            prober.allowed_kinds =
                crate::sim_group::kinds_in(&p.obs[0].all_text()).keys().map(|x| (*x).to_owned()).collect();
            (c, k, p.obs)
        }
        other => {
            return Minimised {
                spec,
                obs: other.map(|p| p.obs).unwrap_or_default(),
                class: "unreproduced".to_owned(),
                kinds: vec![],
                probes: prober.probes,
                reproduced: false,
            };
        }
    };

    // 1. simplify the differing plan
    let simplifications: Vec<Box<dyn Fn(&mut Plan)>> = vec![
        Box::new(|p| {
            p.eintr = 0;
            p.no_insecure = false;
            p.chunk = 0;
        }),
        Box::new(|p| {
            p.skew_heap = 0;
            p.skew_mmap = 0;
            p.env_pad = 0;
        }),
    ];
    for simplify in &simplifications {
        let mut cand = spec.clone();
        simplify(&mut cand.plans[1]);
        if cand.plans[1] != spec.plans[1] && prober.still(&cand, &class, &kinds) {
            spec = cand;
        }
    }
    // 2. pull the key towards the reference key, 8 bytes, then single bytes
    for (lo, hi) in [(0usize, 8usize), (8, 16)] {
        let mut cand = spec.clone();
        cand.plans[1].key[lo..hi].copy_from_slice(&spec.plans[0].key[lo..hi]);
        if cand.plans[1].key != spec.plans[1].key && prober.still(&cand, &class, &kinds) {
            spec = cand;
        }
    }
    for i in 0..16 {
        if spec.plans[1].key[i] != spec.plans[0].key[i] {
            let mut cand = spec.clone();
            cand.plans[1].key[i] = spec.plans[0].key[i];
            if prober.still(&cand, &class, &kinds) {
                spec = cand;
            }
        }
    }
    spec.plans[1].kind = format!("{} (minimised)", full.plans[differing].kind);

    // 3. shrink the file
    let mut budget = if spec.tier == crate::sim_group::Tier::InProc { 900usize } else { 250usize };
    if let Ok(text) = String::from_utf8(spec.source.clone()) {
        // lines
        let lines: Vec<String> = text.split_inclusive('\n').map(str::to_owned).collect();
        let kept = shrink_list(&lines, &mut budget, |cand| {
            prober.still(&with_source(&spec, cand.concat().into_bytes()), &class, &kinds)
        });
        let text = kept.concat();
        spec.source = text.clone().into_bytes();
        // tokens
        let tokens = rough_tokens(&text);
        let joined = join_tokens(&tokens);
        if prober.still(&with_source(&spec, joined.clone().into_bytes()), &class, &kinds) {
            spec.source = joined.into_bytes();
            let kept = shrink_list(&tokens, &mut budget, |cand| {
                prober.still(&with_source(&spec, join_tokens(cand).into_bytes()), &class, &kinds)
            });
            spec.source = join_tokens(&kept).into_bytes();
        }
        // characters (only once the file is small)
        if let Ok(text) = String::from_utf8(spec.source.clone()) {
            if text.chars().count() <= 200 {
                let chars: Vec<char> = text.chars().collect();
                let kept = shrink_list(&chars, &mut budget, |cand| {
                    prober.still(&with_source(&spec, cand.iter().collect::<String>().into_bytes()), &class, &kinds)
                });
                spec.source = kept.iter().collect::<String>().into_bytes();
            }
        }
    }

    // Final confirmation of the minimised pair, in a fresh worker process.
    prober.worker = None;
    let mut reproduced = false;
    if let Some(p) = prober.probe(&spec) {
        if p.status == "violation" && p.obs.len() == 2 {
            reproduced = true;
            obs = p.obs;
        }
    }
    if !reproduced {
        // fall back to the unminimised pair, which did reproduce
        spec = full.clone();
        spec.plans = vec![full.plans[0].clone(), full.plans[differing].clone()];
        if let Some(p) = prober.probe(&spec) {
            if p.status == "violation" && p.obs.len() == 2 {
                reproduced = true;
                obs = p.obs;
            }
        }
    }
    Minimised { spec, obs, class, kinds, probes: prober.probes, reproduced }
}
