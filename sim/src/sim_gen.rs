//! Workload: gram source files that put several things in flight at once, so that an
//! order-dependence has something to reorder. Everything is derived from the group's own PRNG
//! stream; sizes, mix and shapes vary per group (swarm).
//!
//! Families:
//!   W1 harvested      string literals of the repository's test modules and `examples/*.g`
//!   W2 clusters       definition groups with forward / backward / self references, through value
//!                     and non-value definitions, nested in definitions and bodies
//!   W3 multi-fault    several independent scoping and typing faults in one program
//!   W4 syntax-fault   token deletions / insertions / replacements / swaps on other families
//!   W5 lexical-fault  several stray symbols, including multi-byte and combining ones
//!   W6 rich-accepted  accepted programs whose elaborated term / type is large: dependent and
//!                     implicit binders, holes
//!   W7 composite      50–300 token programs assembled from the above

use crate::sim_rng::Rng;

#[derive(Clone, Debug)]
pub struct Case {
    pub family: &'static str,
    pub source: String,
}

#[derive(Clone, Debug, PartialEq)]
enum Ty {
    Int,
    Bool,
    Type,
    Fun(Box<Ty>, Box<Ty>),
}

#[derive(Clone, Debug)]
struct Var {
    name: String,
    ty: Ty,
}

struct Ctx<'r> {
    rng: &'r mut Rng,
    counter: usize,
    /// Budget of nodes still allowed, to bound size.
    fuel: usize,
}

const STEMS: &[&str] = &[
    "a", "b", "c", "d", "e", "f", "g", "h", "k", "m", "n", "p", "q", "r", "s", "t", "u", "v", "w", "x", "y", "z",
    "foo", "bar", "baz", "acc", "len", "ty", "id", "go", "aux", "val",
];

impl Ctx<'_> {
    fn fresh(&mut self) -> String {
        let stem = STEMS[self.rng.below(STEMS.len())];
        self.counter += 1;
        format!("{}{}", stem, self.counter)
    }

    fn spend(&mut self) -> bool {
        if self.fuel == 0 {
            false
        } else {
            self.fuel -= 1;
            true
        }
    }

    fn gen_ty(&mut self, depth: usize) -> Ty {
        if depth == 0 || !self.spend() {
            return if self.rng.chance(2, 3) { Ty::Int } else { Ty::Bool };
        }
        match self.rng.below(8) {
            0..=3 => Ty::Int,
            4 | 5 => Ty::Bool,
            6 => Ty::Type,
            _ => Ty::Fun(Box::new(self.gen_ty(depth - 1)), Box::new(self.gen_ty(depth - 1))),
        }
    }

    fn ty_str(&mut self, ty: &Ty) -> String {
        match ty {
            Ty::Int => "int".to_owned(),
            Ty::Bool => "bool".to_owned(),
            Ty::Type => "type".to_owned(),
            Ty::Fun(a, b) => {
                let a_s = self.ty_str(a);
                let b_s = self.ty_str(b);
                if self.rng.chance(1, 4) {
                    let name = self.fresh();
                    format!("(({name} : {a_s}) -> {b_s})")
                } else {
                    format!("({a_s} -> {b_s})")
                }
            }
        }
    }

    fn vars_of(scope: &[Var], ty: &Ty) -> Vec<String> {
        scope.iter().filter(|v| &v.ty == ty).map(|v| v.name.clone()).collect()
    }

    fn funs_into(scope: &[Var], ty: &Ty) -> Vec<(String, Ty)> {
        scope
            .iter()
            .filter_map(|v| match &v.ty {
                Ty::Fun(a, b) if &**b == ty => Some((v.name.clone(), (**a).clone())),
                _ => None,
            })
            .collect()
    }

    /// A term of type `ty` under `scope`, fully parenthesised where it matters.
    fn term(&mut self, scope: &mut Vec<Var>, ty: &Ty, depth: usize) -> String {
        let leaf = depth == 0 || !self.spend();
        let vars = Self::vars_of(scope, ty);
        if !vars.is_empty() && self.rng.chance(if leaf { 2 } else { 1 }, 3) {
            return vars[self.rng.below(vars.len())].clone();
        }
        match ty {
            Ty::Int => {
                if leaf {
                    return self.rng.below(10).to_string();
                }
                match self.rng.below(12) {
                    0 | 1 => self.rng.below(100).to_string(),
                    2 | 3 | 4 => {
                        let op = *self.rng.pick(&["+", "-", "*", "/"]);
                        let a = self.term(scope, &Ty::Int, depth - 1);
                        let b = self.term(scope, &Ty::Int, depth - 1);
                        format!("({a} {op} {b})")
                    }
                    5 => {
                        let a = self.term(scope, &Ty::Int, depth - 1);
                        format!("(-{a})")
                    }
                    6 | 7 => self.cond(scope, ty, depth),
                    8 | 9 => self.call(scope, ty, depth),
                    _ => self.block(scope, ty, depth),
                }
            }
            Ty::Bool => {
                if leaf {
                    return (*self.rng.pick(&["true", "false"])).to_owned();
                }
                match self.rng.below(8) {
                    0 => "true".to_owned(),
                    1 => "false".to_owned(),
                    2 | 3 | 4 => {
                        let op = *self.rng.pick(&["<", "<=", "==", ">", ">="]);
                        let a = self.term(scope, &Ty::Int, depth - 1);
                        let b = self.term(scope, &Ty::Int, depth - 1);
                        format!("({a} {op} {b})")
                    }
                    5 => self.cond(scope, ty, depth),
                    6 => self.call(scope, ty, depth),
                    _ => self.block(scope, ty, depth),
                }
            }
            Ty::Type => {
                let t = self.gen_ty(if leaf { 0 } else { depth.min(2) });
                self.ty_str(&t)
            }
            Ty::Fun(a, b) => {
                let name = self.fresh();
                let a_s = self.ty_str(a);
                scope.push(Var { name: name.clone(), ty: (**a).clone() });
                let body = self.term(scope, b, depth.saturating_sub(1));
                scope.pop();
                match self.rng.below(6) {
                    0 => format!("({name} => {body})"),
                    1 => format!("(({name} : _) => {body})"),
                    _ => format!("(({name} : {a_s}) => {body})"),
                }
            }
        }
    }

    fn cond(&mut self, scope: &mut Vec<Var>, ty: &Ty, depth: usize) -> String {
        let c = self.term(scope, &Ty::Bool, depth - 1);
        let a = self.term(scope, ty, depth - 1);
        let b = self.term(scope, ty, depth - 1);
        format!("(if {c} then {a} else {b})")
    }

    fn call(&mut self, scope: &mut Vec<Var>, ty: &Ty, depth: usize) -> String {
        let funs = Self::funs_into(scope, ty);
        if !funs.is_empty() && self.rng.chance(2, 3) {
            let (f, a) = funs[self.rng.below(funs.len())].clone();
            let arg = self.term(scope, &a, depth - 1);
            format!("({f} {arg})")
        } else {
            let a = self.gen_ty(1);
            let f = self.term(scope, &Ty::Fun(Box::new(a.clone()), Box::new(ty.clone())), depth - 1);
            let arg = self.term(scope, &a, depth - 1);
            format!("({f} {arg})")
        }
    }

    /// `(d1 = …; d2 = …; body)`
    fn block(&mut self, scope: &mut Vec<Var>, ty: &Ty, depth: usize) -> String {
        let n = self.rng.range(1, 3);
        let base = scope.len();
        let mut text = String::from("(");
        for _ in 0..n {
            let t = self.gen_ty(1);
            let name = self.fresh();
            let value = self.term(scope, &t, depth - 1);
            if self.rng.chance(1, 2) {
                let t_s = self.ty_str(&t);
                text.push_str(&format!("{name} : {t_s} = {value}; "));
            } else {
                text.push_str(&format!("{name} = {value}; "));
            }
            scope.push(Var { name, ty: t });
        }
        let body = self.term(scope, ty, depth - 1);
        scope.truncate(base);
        text.push_str(&body);
        text.push(')');
        text
    }

    /// A typing or scoping fault, as an expression.
    fn fault(&mut self, scope: &mut Vec<Var>, depth: usize) -> String {
        match self.rng.below(10) {
            0 => {
                let a = self.term(scope, &Ty::Int, depth);
                format!("(true + {a})")
            }
            1 => {
                let a = self.term(scope, &Ty::Int, depth);
                format!("({a} {})", self.rng.below(9))
            }
            2 => {
                let a = self.term(scope, &Ty::Int, depth);
                let n = self.fresh();
                format!("(({n} : {a}) => {n})")
            }
            3 => {
                let a = self.term(scope, &Ty::Int, depth);
                let b = self.term(scope, &Ty::Int, depth);
                format!("(if {a} then {b} else 0)")
            }
            4 => {
                let a = self.term(scope, &Ty::Int, depth);
                let b = self.term(scope, &Ty::Bool, depth);
                format!("(if true then {a} else {b})")
            }
            5 => {
                let unbound = format!("nope{}", self.rng.below(1000));
                format!("({unbound} + 1)")
            }
            6 => {
                // re-bound name
                if let Some(v) = scope.last().cloned() {
                    format!("(({} : int) => 0)", v.name)
                } else {
                    "(q => (q => 1))".to_owned()
                }
            }
            7 => {
                let a = self.term(scope, &Ty::Bool, depth);
                format!("(-{a})")
            }
            8 => {
                let a = self.term(scope, &Ty::Int, depth);
                let n = self.fresh();
                format!("((({n} : bool) => {n}) {a})")
            }
            _ => {
                let a = self.term(scope, &Ty::Bool, depth);
                let b = self.term(scope, &Ty::Int, depth);
                format!("({a} < {b})")
            }
        }
    }
}

fn sep(rng: &mut Rng) -> &'static str {
    // (a `;` directly followed by a line break is two terminators, i.e. a syntax error)
    match rng.below(3) {
        0 => "; ",
        _ => "\n",
    }
}

/// W6 / base: a well-typed program made of a chain of definitions and a body.
fn typed_program(rng: &mut Rng, faults: usize, rich: bool) -> String {
    let fuel = rng.range(10, if rich { 90 } else { 50 });
    let mut cx = Ctx { rng, counter: 0, fuel };
    let mut scope: Vec<Var> = vec![];
    let mut text = String::new();
    let n_defs = cx.rng.range(1, 6);
    let mut fault_slots: Vec<usize> = (0..faults).map(|_| cx.rng.below(n_defs + 1)).collect();
    fault_slots.sort_unstable();
    for i in 0..n_defs {
        let mut t = cx.gen_ty(if rich { 3 } else { 2 });
        if rich && cx.rng.chance(1, 3) {
            t = Ty::Fun(Box::new(cx.gen_ty(1)), Box::new(cx.gen_ty(2)));
        }
        let name = cx.fresh();
        let depth = cx.rng.range(1, 4);
        let mut value = cx.term(&mut scope, &t, depth);
        let k = fault_slots.iter().filter(|s| **s == i).count();
        for _ in 0..k {
            let f = cx.fault(&mut scope, 1);
            value = match cx.rng.below(3) {
                0 => f,
                1 => format!("(({}) + {})", value, f),
                _ => format!("(if true then {} else {})", value, f),
            };
        }
        match cx.rng.below(4) {
            0 => {
                let t_s = cx.ty_str(&t);
                text.push_str(&format!("{name} : {t_s} = {value}"));
            }
            1 if rich => text.push_str(&format!("{name} : _ = {value}")),
            _ => text.push_str(&format!("{name} = {value}")),
        }
        text.push_str(sep(cx.rng));
        scope.push(Var { name, ty: t });
    }
    let t = cx.gen_ty(if rich { 3 } else { 1 });
    let mut body = cx.term(&mut scope, &t, 3);
    let k = fault_slots.iter().filter(|s| **s == n_defs).count();
    for _ in 0..k {
        let f = cx.fault(&mut scope, 1);
        body = format!("(({}) + {})", body, f);
    }
    text.push_str(&body);
    text.push('\n');
    text
}

/// W6: polymorphic / dependent / implicit shapes that make `Display` of Pi and the unifier work.
fn rich_program(rng: &mut Rng) -> String {
    let templates: &[&str] = &[
        "id = (a : type) => (x : a) => x\nid int 3\n",
        "id = {a : type} => (x : a) => x\nid\n",
        "const = (a : type) => (b : type) => (x : a) => (y : b) => x\nconst\n",
        "const = (a : type) => (b : type) => (x : a) => (y : b) => x\nconst int bool 1 true\n",
        "compose = (a : type) => (b : type) => (c : type) => (f : b -> c) => (g : a -> b) => (x : a) => f (g x)\ncompose\n",
        "apply = (a : type) => (p : a -> type) => (f : (x : a) -> p x) => (x : a) => f x\napply\n",
        "twice = (a : type) => (f : a -> a) => (x : a) => f (f x)\ntwice int ((n : int) => n + 1) 5\n",
        "(eq : (a : type) -> (x : a) -> (y : a) -> type) => (refl : (a : type) -> (x : a) -> eq a x x) => refl int 3\n",
        "f = (x : _) => x + 1\nf 2\n",
        "f : _ = (x : int) => (y : _) => x + y\nf\n",
        "pair = (a : type) => (b : type) => (x : a) => (y : b) => (c : type) => (k : a -> b -> c) => k x y\npair\n",
        "fst = (a : type) => (b : type) => (p : (c : type) -> (a -> b -> c) -> c) => p a ((x : a) => (y : b) => x)\nfst\n",
        "church = (a : type) => (s : a -> a) => (z : a) => s (s (s z))\nchurch int ((n : int) => n * 2) 1\n",
        "h = (f : int -> _) => f 1\nh\n",
        "g = (t : type) => (u : type) => (v : type) => (x : t -> u -> v) => (y : t -> u) => (z : t) => x z (y z)\ng\n",
        "n = (p : (a : type) -> a -> a) => p ((b : type) -> b -> b) p\nn\n",
    ];
    let mut text = String::new();
    let k = rng.range(1, 3);
    let mut used = vec![];
    for i in 0..k {
        let idx = rng.below(templates.len());
        if used.contains(&idx) {
            continue;
        }
        used.push(idx);
        // Rename the bound names apart so that templates can be stacked without shadowing.
        let t = rename_apart(templates[idx], i);
        if i + 1 < k {
            // keep the definitions, drop the final body line
            let mut lines: Vec<&str> = t.trim_end().lines().collect();
            if lines.len() > 1 {
                lines.pop();
                text.push_str(&lines.join("\n"));
                text.push('\n');
            }
        } else {
            text.push_str(&t);
        }
    }
    if text.is_empty() {
        text = templates[rng.below(templates.len())].to_owned();
    }
    text
}

const KEYWORDS: &[&str] = &["type", "int", "bool", "true", "false", "if", "then", "else", "_"];

fn rename_apart(text: &str, tag: usize) -> String {
    let mut out = String::new();
    let mut word = String::new();
    let flush = |word: &mut String, out: &mut String| {
        if !word.is_empty() {
            if KEYWORDS.contains(&word.as_str()) || word.chars().next().is_some_and(|c| c.is_ascii_digit()) {
                out.push_str(word);
            } else {
                out.push_str(&format!("{word}_{tag}"));
            }
            word.clear();
        }
    };
    for c in text.chars() {
        if c.is_ascii_alphanumeric() || c == '_' {
            word.push(c);
        } else {
            flush(&mut word, &mut out);
            out.push(c);
        }
    }
    flush(&mut word, &mut out);
    out
}

/// W2: a group of definitions referring to one another, to drive the definition-order check with
/// index sets of every small size, from one or several non-value definitions.
fn cluster_text(rng: &mut Rng, tag: &str, outer: &[String], nest: usize) -> (String, Vec<String>) {
    let n = rng.range(2, 7);
    let names: Vec<String> = (0..n).map(|i| format!("{tag}{i}")).collect();
    let mut text = String::new();
    for i in 0..n {
        let mut refs: Vec<String> = vec![];
        let k = rng.range(0, 5.min(n));
        for _ in 0..k {
            let r = match rng.below(10) {
                0 => i,                              // self
                1..=5 => rng.below(n),               // anywhere
                6 | 7 => (i + 1 + rng.below(n)) % n, // biased forward
                _ => rng.below(n),
            };
            refs.push(names[r].clone());
        }
        if !outer.is_empty() && rng.chance(1, 2) {
            refs.push(outer[rng.below(outer.len())].clone());
        }
        let param = format!("{tag}p{i}");
        let value = match rng.below(12) {
            // values
            0 | 1 => format!("({param} : int) => {}", sum_of(&refs, &param)),
            2 => format!("{param} => {}", sum_of(&refs, &param)),
            3 => (*rng.pick(&["1", "true", "type", "int", "bool", "0"])).to_owned(),
            4 => format!("({param} : int) -> {}", if refs.is_empty() { "int".to_owned() } else { format!("({})", refs.join(" ")) }),
            // computations
            5 | 6 | 7 => {
                if refs.is_empty() {
                    "1 + 1".to_owned()
                } else {
                    refs.join(" + ")
                }
            }
            8 => {
                if refs.len() >= 2 {
                    refs.join(" ")
                } else if refs.len() == 1 {
                    refs[0].clone()
                } else {
                    "2 * 3".to_owned()
                }
            }
            9 => {
                let a = refs.first().cloned().unwrap_or_else(|| "true".to_owned());
                let b = refs.get(1).cloned().unwrap_or_else(|| "1".to_owned());
                let c = refs.get(2).cloned().unwrap_or_else(|| "2".to_owned());
                format!("if {a} then {b} else {c}")
            }
            10 if nest > 0 => {
                let (inner, inner_names) = cluster_text(rng, &format!("{tag}n{i}_"), &names, nest - 1);
                let mut body_refs = refs.clone();
                body_refs.push(inner_names[rng.below(inner_names.len())].clone());
                format!("(\n{inner}{}\n)", body_refs.join(" + "))
            }
            _ => {
                if refs.is_empty() {
                    "-1".to_owned()
                } else {
                    format!("-{}", refs[0])
                }
            }
        };
        if rng.chance(1, 6) {
            text.push_str(&format!("{} : int = {}", names[i], value));
        } else {
            text.push_str(&format!("{} = {}", names[i], value));
        }
        text.push_str(if rng.chance(1, 3) { "; " } else { "\n" });
    }
    (text, names)
}

fn sum_of(refs: &[String], param: &str) -> String {
    if refs.is_empty() {
        param.to_owned()
    } else {
        format!("{} + {}", refs.join(" + "), param)
    }
}

/// A ring of mutually recursive functions, some of which mention late non-value definitions, and
/// several non-value definitions that reach those only through different members of the ring
/// (memoised / cached / pruned reachability computations differ on which member they enter first).
fn ring_program(rng: &mut Rng) -> String {
    let k = rng.range(2, 4);
    let m = rng.range(2, 4);
    let late = rng.range(1, 2);
    let funs: Vec<String> = (0..k).map(|i| format!("fn{i}")).collect();
    let lates: Vec<String> = (0..late).map(|i| format!("late{i}")).collect();
    let mut lines: Vec<String> = vec![];
    let mut defs: Vec<String> = vec![];
    for (i, f) in funs.iter().enumerate() {
        let next = &funs[(i + 1) % k];
        let extra = if rng.chance(1, 2) { format!("{} + ", lates[rng.below(late)]) } else { String::new() };
        defs.push(format!("{f} = x{i} => if x{i} == 0 then {extra}{i} else {next} (x{i} - 1)"));
    }
    for j in 0..m {
        let a = &funs[rng.below(k)];
        let b = &funs[rng.below(k)];
        let body = match rng.below(3) {
            0 => format!("{a} {j}"),
            1 => format!("{a} {j} + {b} {}", j + 1),
            _ => format!("{b} ({a} {j})"),
        };
        defs.push(format!("use{j} = {body}"));
    }
    // the functions and their users in a seeded order, the late definitions after them
    for i in (1..defs.len()).rev() {
        let j = rng.below(i + 1);
        defs.swap(i, j);
    }
    lines.extend(defs);
    for (i, l) in lates.iter().enumerate() {
        lines.push(format!("{l} = {} + {}", i + 2, i + 3));
    }
    let users: Vec<String> = (0..m).map(|j| format!("use{j}")).collect();
    lines.push(users.join(" + "));
    lines.join("\n") + "\n"
}

fn cluster_program(rng: &mut Rng) -> String {
    if rng.chance(1, 6) {
        return ring_program(rng);
    }
    let nest = rng.below(3);
    if rng.chance(1, 5) {
        // the group sits under lambda binders whose parameters its definitions mention, and the
        // whole thing is applied: `((x : int) => (a = x + b; b = 2 + x; a)) 1`
        let k = rng.range(1, 3);
        let params: Vec<String> = (0..k).map(|i| format!("lp{i}")).collect();
        let (text, names) = cluster_text(rng, "d", &params, nest.min(1));
        let binders: String = params.iter().map(|p| format!("({p} : int) => ")).collect();
        let args: String = params.iter().map(|_| format!(" {}", rng.below(9))).collect();
        let result = names[rng.below(names.len())].clone();
        return format!("({binders}(\n{text}{result}\n)){args}\n");
    }
    let (mut text, names) = cluster_text(rng, "d", &[], nest);
    if rng.chance(1, 3) {
        // a second, independent cluster in the body position
        let (more, more_names) = cluster_text(rng, "e", &names, 0);
        text.push_str(&more);
        text.push_str(&more_names[rng.below(more_names.len())]);
    } else {
        text.push_str(&names[rng.below(names.len())]);
    }
    text.push('\n');
    text
}

/// Rough lexer, good enough to mutate at token granularity.
pub fn rough_tokens(text: &str) -> Vec<String> {
    let mut tokens = vec![];
    let chars: Vec<char> = text.chars().collect();
    let mut i = 0;
    while i < chars.len() {
        let c = chars[i];
        if c == ' ' || c == '\t' || c == '\r' {
            i += 1;
        } else if c == '\n' {
            tokens.push("\n".to_owned());
            i += 1;
        } else if c == '#' {
            while i < chars.len() && chars[i] != '\n' {
                i += 1;
            }
        } else if c.is_alphanumeric() || c == '_' {
            let mut j = i;
            while j < chars.len() && (chars[j].is_alphanumeric() || chars[j] == '_') {
                j += 1;
            }
            tokens.push(chars[i..j].iter().collect());
            i = j;
        } else {
            let two: String = chars[i..(i + 2).min(chars.len())].iter().collect();
            if ["=>", "->", "==", "<=", ">="].contains(&two.as_str()) {
                tokens.push(two);
                i += 2;
            } else {
                tokens.push(c.to_string());
                i += 1;
            }
        }
    }
    tokens
}

pub fn join_tokens(tokens: &[String]) -> String {
    let mut out = String::new();
    for t in tokens {
        if t == "\n" {
            out.push('\n');
        } else {
            if !out.is_empty() && !out.ends_with('\n') {
                out.push(' ');
            }
            out.push_str(t);
        }
    }
    if !out.ends_with('\n') {
        out.push('\n');
    }
    out
}

const TOKEN_POOL: &[&str] = &[
    "(", ")", "{", "}", ":", "=", "=>", "->", "+", "-", "*", "/", "<", "<=", "==", ">", ">=", ";", "\n", "if", "then",
    "else", "true", "false", "int", "bool", "type", "_", "x", "y", "1", "42",
];

/// W4: several token-level faults, so that the parser recovers more than once.
fn syntax_faults(rng: &mut Rng, base: &str) -> String {
    let mut tokens = rough_tokens(base);
    if tokens.is_empty() {
        tokens.push("(".to_owned());
    }
    let k = rng.range(1, 3);
    for _ in 0..k {
        let at = rng.below(tokens.len().max(1));
        match rng.below(5) {
            0 if tokens.len() > 1 => {
                tokens.remove(at);
            }
            1 => tokens.insert(at, (*rng.pick(TOKEN_POOL)).to_owned()),
            2 => tokens[at] = (*rng.pick(TOKEN_POOL)).to_owned(),
            3 if tokens.len() > 1 => {
                let b = rng.below(tokens.len());
                tokens.swap(at, b);
            }
            _ => {
                // truncate: unbalanced brackets, unfinished constructs
                let keep = rng.range(1, tokens.len());
                tokens.truncate(keep);
            }
        }
        if tokens.is_empty() {
            tokens.push(")".to_owned());
        }
    }
    join_tokens(&tokens)
}

const STRAYS: &[&str] = &[
    "$", "@", "!", "~", "^", "&", "%", "?", "|", "\\", "\"", "'", "`", "[", "]", ",", ".", "é", "∀", "λ", "→", "🙂", "e\u{301}",
    "\u{200d}", "👩\u{200d}💻", "\u{0}", "\u{7f}", "ß", "中", "✓", "✓\u{fe0f}", "❤", "❤\u{fe0f}",
];

/// W5: several stray symbols.
fn lexical_faults(rng: &mut Rng, base: &str) -> String {
    let mut chars: Vec<String> = base.chars().map(|c| c.to_string()).collect();
    let k = rng.range(1, 5);
    for _ in 0..k {
        let at = rng.below(chars.len() + 1);
        chars.insert(at, (*rng.pick(STRAYS)).to_owned());
    }
    chars.concat()
}

/// W7: definitions of several programs chained, so that many containers are created per launch.
fn composite(rng: &mut Rng, corpus: &[String]) -> String {
    let mut text = String::new();
    let parts = rng.range(2, 5);
    for i in 0..parts {
        let piece = match rng.below(4) {
            0 => cluster_program(rng),
            1 => {
                let faults = rng.below(3);
                typed_program(rng, faults, false)
            }
            2 => rich_program(rng),
            _ => {
                if corpus.is_empty() {
                    typed_program(rng, 0, true)
                } else {
                    corpus[rng.below(corpus.len())].clone()
                }
            }
        };
        let piece = rename_apart(&piece, 100 + i);
        let name = format!("part{i}");
        if rng.chance(1, 2) {
            text.push_str(&format!("{name} = (\n{}\n)\n", piece.trim_end()));
        } else {
            text.push_str(&format!("{name} = ({})\n", piece.trim_end()));
        }
    }
    text.push_str(&format!("part{}\n", rng.below(parts)));
    text
}

/// W8: accepted programs whose *evaluation* has several things in flight: stuck terms holding
/// several distinct stuck subterms (divisions by zero, definitions used too early), and values
/// that are functions or types mentioning several names.
fn runtime_program(rng: &mut Rng) -> String {
    fn int_tree(rng: &mut Rng, depth: usize, vars: &[String]) -> String {
        if depth == 0 || rng.chance(1, 4) {
            return match rng.below(6) {
                0 | 1 => format!("({} / 0)", rng.range(1, 99)),
                2 => format!("({} / ({} - {}))", rng.range(1, 99), 7, 7),
                3 if !vars.is_empty() => vars[rng.below(vars.len())].clone(),
                _ => rng.below(50).to_string(),
            };
        }
        let a = int_tree(rng, depth - 1, vars);
        let b = int_tree(rng, depth - 1, vars);
        match rng.below(7) {
            0 | 1 => format!("({a} + {b})"),
            2 => format!("({a} - {b})"),
            3 => format!("({a} * {b})"),
            4 => format!("({a} / {b})"),
            5 => format!("(if {a} < {b} then {a} else {b})"),
            _ => format!("(-{a})"),
        }
    }
    match rng.below(12) {
        10 | 11 => {
            // a non-value definition that refers *forward* to several later function values
            // (accepted by the definition-order check), some of them mutually recursive, with a
            // result that still mentions them
            let k = rng.range(2, 4);
            let names: Vec<String> = (0..k).map(|i| format!("fn{i}")).collect();
            let mut text = String::new();
            let calls: Vec<String> = names.iter().map(|f| format!("{f} {}", rng.range(0, 6))).collect();
            match rng.below(3) {
                0 => text.push_str(&format!("first : int = {}\n", calls.join(" + "))),
                1 => text.push_str(&format!("first : bool = {} < {}\n", calls[0], calls[1])),
                _ => text.push_str(&format!("first = {}\n", calls.join(" * "))),
            }
            for (i, f) in names.iter().enumerate() {
                let next = &names[(i + 1) % k];
                if rng.chance(2, 3) {
                    // ring of mutual recursion
                    text.push_str(&format!("{f} : (int -> int) = n => if n == 0 then {i} else {next} (n - 1)\n"));
                } else {
                    text.push_str(&format!("{f} : (int -> int) = n => n + {i}\n"));
                }
            }
            match rng.below(3) {
                0 => text.push_str(&format!("(m : int) => if first == 0 then {} m else {} m\n", names[0], names[k - 1])),
                1 => text.push_str("first\n"),
                _ => text.push_str(&format!("(m : int) => {}\n", names.iter().map(|f| format!("{f} m")).collect::<Vec<_>>().join(" + "))),
            }
            text
        }
        8 | 9 => {
            // values that are closures: partial applications, functions returned from functions,
            // captured definitions, big integers
            let a = rng.range(2, 40);
            let b = rng.range(2, 40);
            let templates: Vec<String> = vec![
                format!("k = {a}\nadd = (x : int) => (y : int) => x + y + k\nadd {b}\n"),
                format!("add = (x : int) => (y : int) => x + y\ntwice = (f : int -> int) => (z : int) => f (f z)\ntwice (add {a})\n"),
                format!("compose = (f : int -> int) => (g : int -> int) => (x : int) => f (g x)\ninc = (n : int) => n + {a}\ndbl = (n : int) => n * {b}\ncompose inc dbl\n"),
                format!("mk = (n : int) => (m = n * n; p = m + {a}; (q : int) => m + p + q)\nmk {b}\n"),
                format!("pow : (int -> int -> int) = b => e => if e == 0 then 1 else b * pow b (e - 1)\npow {} {}\n", a + 90, b + 20),
                format!("pick = (c : bool) => (t : type) => (x : t) => (y : t) => if c then x else y\npick ({a} < {b}) int\n"),
                format!("ty = (n : int) => if n < {a} then int else bool\n(v : ty {b}) => v\n"),
                format!("curry = (f : int -> int -> int -> int) => f {a} {b}\ncurry ((x : int) => (y : int) => (z : int) => x * y - z)\n"),
            ];
            templates[rng.below(templates.len())].clone()
        }
        6 | 7 => {
            // long-running but terminating evaluations (thousands of steps): anything that meters
            // evaluation - a step or time budget, periodic work - is only consulted on these
            let n = rng.range(80, 1500);
            match rng.below(4) {
                // tail recursive: may run long (anything probabilistic per step needs many steps)
                0 => format!("loop : (int -> int) = n => if n == 0 then 0 else loop (n - 1)\nloop {}\n", n * if rng.chance(1, 4) { 9 } else { 3 }),
                // not tail recursive: the pending additions nest, so keep it shallow
                1 => format!("sum : (int -> int) = n => if n == 0 then 0 else n + sum (n - 1)\nsum {}\n", n / 3 + 40),
                2 => format!("fact : (int -> int) = n => if n == 0 then 1 else n * fact (n - 1)\nfact {}\n", n / 8 + 5),
                _ => format!(
                    "go : (int -> int -> int) = acc => n => if n == 0 then acc else go (acc + n * n) (n - 1)\ngo 0 {n}\n"
                ),
            }
        }
        0 | 1 => {
            // several distinct divisions by zero in one expression
            let depth = rng.range(1, 4);
            format!("{}\n", int_tree(rng, depth, &[]))
        }
        2 => {
            // through definitions and a function call
            let n = rng.range(2, 5);
            let mut text = String::new();
            let mut vars = vec![];
            for i in 0..n {
                let name = format!("q{i}");
                let depth = rng.range(0, 2);
                text.push_str(&format!("{name} = {}\n", int_tree(rng, depth, &vars)));
                vars.push(name);
            }
            let depth = rng.range(1, 3);
            text.push_str(&format!("f = (x : int) => (y : int) => {} + x / y\n", int_tree(rng, depth, &vars)));
            text.push_str(&format!("f {} 0\n", vars.join(" + ")));
            text
        }
        3 => {
            // accepted by the front end, stuck at run time for reasons other than division
            let templates: &[&str] = &[
                "x = (y = z + 1; z = 1 + 2; y); x\n",
                "((f : int -> _) => f 1 + 1) ((x : int) => true)\n",
                "g = (h : int -> _) => (k : int -> _) => h 1 + k 2\ng ((x : int) => true) ((y : int) => false)\n",
                "a = (b = c + 1; c = 2 * 3; d = c + b; b + d); a + a\n",
            ];
            (*rng.pick(templates)).to_owned()
        }
        4 => {
            // values that are functions / types with several names in them
            let n = rng.range(2, 6);
            let mut text = String::new();
            let mut names = vec![];
            for i in 0..n {
                text.push_str(&format!("k{i} = {}\n", rng.below(100)));
                names.push(format!("k{i}"));
            }
            let params: Vec<String> = (0..rng.range(1, 4)).map(|i| format!("p{i}")).collect();
            let body: Vec<String> = names.iter().chain(params.iter()).cloned().collect();
            let lambdas: String = params.iter().map(|p| format!("({p} : int) => ")).collect();
            if rng.chance(1, 2) {
                text.push_str(&format!("{lambdas}{}\n", body.join(" + ")));
            } else {
                let pis: String = params.iter().map(|p| format!("({p} : int) -> ")).collect();
                text.push_str(&format!("{pis}(({}) == 0) -> type\n", body.join(" + ")));
            }
            text
        }
        _ => {
            // a let with several definitions that survives into the printed value
            let n = rng.range(2, 5);
            let mut inner = String::new();
            let mut names = vec![];
            for i in 0..n {
                inner.push_str(&format!("w{i} = x + {}; ", rng.below(100)));
                names.push(format!("w{i}"));
            }
            format!("(x : int) => ({inner}{})\n", names.join(" * "))
        }
    }
}

/// Accepted programs that leave several *unresolved* holes in the elaborated term / type.
fn holes_program(rng: &mut Rng) -> String {
    match rng.below(5) {
        0 => {
            let n = rng.range(2, 6);
            let params: String = (0..n).map(|i| format!("(h{i} : _) => ")).collect();
            format!("{params}h{}\n", rng.below(n))
        }
        1 => {
            let n = rng.range(2, 5);
            let holes = vec!["_"; n].join(" ");
            let pis: String = (0..n).map(|i| format!("(t{i} : type) -> ")).collect();
            format!("(p : {pis}type) => p {holes}\n")
        }
        2 => "(f : _ -> _) => (g : _ -> _) => (x : _) => f (g x)\n".to_owned(),
        3 => {
            let n = rng.range(2, 4);
            let mut text = String::new();
            for i in 0..n {
                text.push_str(&format!("u{i} : _ = (v{i} : _) => v{i}\n"));
            }
            text.push_str(&format!("u{}\n", rng.below(n)));
            text
        }
        4 if rng.chance(1, 2) => {
            // a hole of an *outer* binder that has to be solved inside a block, against a type
            // that mentions several of the block's own definitions, some defined through others
            // (the solution must not refer to them once it escapes the block)
            let k = rng.range(2, 4);
            let mut text = String::from("f = (x : _) =>\n");
            let mut names: Vec<String> = vec![];
            for i in 0..k {
                let name = format!("t{i}");
                let body = if names.is_empty() || rng.chance(1, 3) {
                    (*rng.pick(&["int", "bool", "type", "int -> int"])).to_owned()
                } else {
                    let a = names[rng.below(names.len())].clone();
                    let b = names[rng.below(names.len())].clone();
                    format!("{a} -> {b}")
                };
                text.push_str(&format!("  {name} = {body}\n"));
                names.push(name);
            }
            let a = names[rng.below(names.len())].clone();
            let b = names[names.len() - 1].clone();
            text.push_str(&format!("  y : ({a} -> {b}) = x\n  y\nf\n"));
            text
        }
        4 if rng.chance(2, 3) => {
            // an unannotated recursive definition whose inferred type would have to contain itself
            // (the occurs check is what rejects it), hidden behind n unannotated parameters
            let n = rng.range(0, 24);
            let names: Vec<String> = (0..n).map(|i| format!("a{i}")).collect();
            let mut body = "f".to_owned();
            for name in &names {
                body = format!("(if true then {body} else {name})");
            }
            let binders: String = names.iter().map(|a| format!("({a} : _) => ")).collect();
            if n == 0 {
                "f = (x : int) => f\nf 1\n".to_owned()
            } else {
                format!("f = {binders}\n  {body}\nf\n")
            }
        }
        _ => "(a : _) => (b : _) => (c : _ -> _ -> _) => c a b\n".to_owned(),
    }
}

/// Many diagnostics of one kind at once (thresholds such as "only the first N", table growth),
/// repeated identical diagnostics (de-duplication), and near-miss names (suggestions).
fn many_errors_program(rng: &mut Rng) -> String {
    let n = rng.range(9, 40);
    match rng.below(7) {
        6 => {
            // diagnostics that quote very long types (abbreviation / wrapping / spill-over logic
            // only runs on those)
            let params = rng.range(30, 160);
            let binders: String = (0..params).map(|i| format!("(a{i} : int) => ")).collect();
            let sum: Vec<String> = (0..params.min(12)).map(|i| format!("a{i}")).collect();
            match rng.below(3) {
                0 => format!("f = (x : bool) => x\nf ({binders}{})\n", sum.join(" + ")),
                1 => format!("g : int = {binders}{}\ng\n", sum.join(" + ")),
                _ => format!("h = {binders}{}\nk : bool = h\nj : int = h\nk\n", sum.join(" * ")),
            }
        }
        0 => {
            // many distinct unbound names
            let terms: Vec<String> = (0..n).map(|i| format!("missing{i}")).collect();
            if rng.chance(1, 2) {
                format!("{}\n", terms.join(" + "))
            } else {
                let mut text = String::new();
                for (i, t) in terms.iter().enumerate() {
                    text.push_str(&format!("r{i} = {t}\n"));
                }
                text.push_str("r0\n");
                text
            }
        }
        1 => {
            // the same unbound name many times, plus a few others
            let mut terms: Vec<String> = (0..n).map(|i| if i % 3 == 0 { format!("other{}", i % 4) } else { "same".to_owned() }).collect();
            terms.push("1".to_owned());
            format!("{}\n", terms.join(" + "))
        }
        2 if rng.chance(1, 2) => {
            // many names in scope (tables grow, caps on how many candidates are looked at) and a
            // misspelt use of one of them
            let stem = *rng.pick(&["item", "v", "field", "n"]);
            let count = rng.range(20, 90);
            let mut text = String::new();
            for i in 0..count {
                text.push_str(&format!("{stem}{i:02} = {i}\n"));
            }
            let target = rng.below(count);
            let good = format!("{stem}{target:02}");
            let typo = match rng.below(3) {
                0 => good.replacen(stem, &stem[..stem.len().saturating_sub(1).max(1)], 1),
                1 => format!("{good}x"),
                _ => good.replacen(stem, &format!("{stem}_"), 1),
            };
            text.push_str(&format!("{stem}00 + {typo}\n"));
            text
        }
        2 => {
            // near-miss names: several in-scope names at the same edit distance from a typo
            let stem = *rng.pick(&["total", "count", "value", "index", "x", "ab"]);
            let k = rng.range(2, 6);
            let mut text = String::new();
            for i in 0..k {
                text.push_str(&format!("{stem}{i} = {i}\n"));
            }
            let typo = match rng.below(3) {
                0 => format!("{stem}{}", k + 1),
                1 => format!("{stem}_"),
                _ => stem.to_owned(),
            };
            text.push_str(&format!("{stem}0 + {typo} + {typo}\n"));
            text
        }
        3 => {
            // many type errors, some identical
            let mut text = String::new();
            for i in 0..n {
                match i % 4 {
                    0 => text.push_str(&format!("e{i} : int = true\n")),
                    1 => text.push_str(&format!("e{i} : bool = {i}\n")),
                    2 => text.push_str(&format!("e{i} = true + {i}\n")),
                    _ => text.push_str(&format!("e{i} = {i} {i}\n")),
                }
            }
            text.push_str("e0\n");
            text
        }
        4 if rng.chance(1, 2) => {
            // names bound twice inside a nested group, and used again after the group has ended
            // (whatever bookkeeping restores the outer scope has to cope with the clash)
            let k = rng.range(1, 3);
            let mut inner = String::new();
            let mut names = vec![];
            for i in 0..k {
                inner.push_str(&format!("again{i} = {i}; again{i} = {}; ", i + 10));
                names.push(format!("again{i}"));
            }
            let outer_before = if rng.chance(1, 2) { format!("{} = 0\n", names[0]) } else { String::new() };
            format!(
                "{outer_before}f = ({inner}{})\ng = y => {}\ng f\n",
                names.join(" + "),
                names.join(" + ")
            )
        }
        4 => {
            // many re-bound names
            let mut text = String::new();
            for i in 0..n {
                text.push_str(&format!("dup{} = {i}\n", i % 5));
            }
            text.push_str("dup0\n");
            text
        }
        5 if rng.chance(1, 2) => {
            // the same stray symbols in two spellings that differ only by an invisible variation
            // selector (text pasted from chats): anything that compares or de-duplicates them has
            // to decide whether they are "the same"
            let bases = ["✓", "★", "❤", "☎", "✂", "✈", "✉", "☀", "☂"];
            let k = rng.range(2, bases.len());
            let mut text = String::from("# pasted\n");
            for (i, b) in bases.iter().take(k).enumerate() {
                text.push_str(&format!("x{i} = {i} {b}\n"));
            }
            for (i, b) in bases.iter().take(k).enumerate() {
                let sel = if rng.chance(3, 4) { "\u{fe0f}" } else { "\u{fe0e}" };
                text.push_str(&format!("y{i} = x{i} + 1 {b}{sel}\n"));
            }
            text.push_str("y0\n");
            text
        }
        _ => {
            // many stray symbols
            let strays: Vec<&str> = (0..n).map(|_| *rng.pick(STRAYS)).collect();
            format!("x = 1 {}\nx\n", strays.join(" y "))
        }
    }
}

/// W9: dependently typed programs: a type family over an abstract type, consumers and producers
/// of its members, and lambdas whose parameters are only partly annotated, so that parameter
/// types are *inferred* to be dependent types (solved holes under binders). Used both accepted
/// (elaborated term and type are printed) and rejected (the diagnostics quote such types).
fn dependent_program(rng: &mut Rng) -> String {
    let arity = rng.range(1, 3);
    let xs: Vec<String> = (0..arity).map(|i| format!("x{i}")).collect();
    let fam_args = xs.iter().map(|_| "a").collect::<Vec<_>>().join(" -> ");
    let binders = |names: &[String]| names.iter().map(|x| format!("({x} : a) -> ")).collect::<String>();
    let result = *rng.pick(&["int", "bool", "a", "type"]);
    let mut text = String::from("f =\n  (a : type) =>\n");
    text.push_str(&format!("  (p : {fam_args} -> type) =>\n"));
    text.push_str(&format!("  (user : {}p {} -> {result}) =>\n", binders(&xs), xs.join(" ")));
    let with_mk = rng.chance(1, 2);
    if with_mk {
        text.push_str(&format!("  (mk : {}p {}) =>\n", binders(&xs), xs.join(" ")));
    }
    let with_sink = rng.chance(2, 3);
    let sink_ty = *rng.pick(&["int -> int", "bool -> int", "(int -> int) -> int", "a -> a", "type -> int"]);
    if with_sink {
        text.push_str(&format!("  (n : {sink_ty}) =>\n"));
    }
    // the lambda: its binders, some annotated, some not, the last one (h) usually not
    let ys: Vec<String> = (0..arity).map(|i| format!("y{i}")).collect();
    let mut lambda = String::new();
    for y in &ys {
        match rng.below(7) {
            0 => lambda.push_str(&format!("{y} => ")),
            1 => lambda.push_str(&format!("({y} : _) => ")),
            2 => lambda.push_str(&format!("{{{y} : a}} => ")),
            _ => lambda.push_str(&format!("({y} : a) => ")),
        }
    }
    let h_binder = match rng.below(4) {
        0 => format!("(h : p {}) => ", ys.join(" ")),
        1 => "(h : _) => ".to_owned(),
        _ => "h => ".to_owned(),
    };
    lambda.push_str(&h_binder);
    // body: apply the consumer, possibly with permuted / repeated arguments, possibly under a let
    let mut args = ys.clone();
    if arity > 1 && rng.chance(1, 3) {
        let i = rng.below(arity);
        let j = rng.below(arity);
        args.swap(i, j);
    }
    if arity > 1 && rng.chance(1, 6) {
        args[0] = args[1].clone();
    }
    let call = format!("user {} h", args.join(" "));
    let inner = match rng.below(4) {
        0 => format!("(r = {call}; r)"),
        1 if with_mk => format!("user {} (mk {})", ys.join(" "), args.join(" ")),
        _ => call,
    };
    lambda.push_str(&inner);
    let body = match rng.below(5) {
        0 | 1 if with_sink => format!("n ({lambda})"),
        2 => format!("({lambda})"),
        3 if with_mk => {
            let zs: Vec<String> = (0..arity).map(|i| format!("z{i}")).collect();
            let zb: String = zs.iter().map(|z| format!("({z} : a) => ")).collect();
            format!("{zb}({lambda}) {} (mk {})", zs.join(" "), zs.join(" "))
        }
        _ => lambda,
    };
    text.push_str(&format!("    {body}\n\nf\n"));
    text
}

/// W9b: a hole passed as an argument whose value unification has to find from *several*
/// positions of a dependent type at once (`g : (a : type) -> p a a -> int`, `g _ v`), with
/// candidates that are equal only up to definitions, or not equal at all. Which candidate the
/// hole ends up holding, and which one a diagnostic quotes, is decided by the order in which the
/// positions are unified.
fn hole_argument_program(rng: &mut Rng) -> String {
    let occurrences = rng.range(2, 3);
    let fam = format!("{}type", "type -> ".repeat(occurrences));
    let hole_positions = vec!["a"; occurrences].join(" ");
    let result = *rng.pick(&["int", "bool", "type"]);
    let mut text = String::from("(q : type -> type) =>\n");
    text.push_str(&format!("(p : {fam}) =>\n"));
    text.push_str(&format!("(g : (a : type) -> p {hole_positions} -> {result}) =>\n"));
    let abstract_b = rng.chance(2, 3);
    if abstract_b {
        text.push_str("(b : type) =>\n");
    }
    let base = if abstract_b { "b" } else { "int" };
    // definitions that are equal to one another up to unfolding, and some that are not
    text.push_str(&format!("  c = {base}\n"));
    text.push_str(&format!("  w = q {base}\n"));
    let other = *rng.pick(&["bool", "int", "type"]);
    let pool = [
        "w".to_owned(),
        "(q c)".to_owned(),
        format!("(q {base})"),
        format!("(q {other})"),
        "c".to_owned(),
        base.to_owned(),
    ];
    let mut args = vec![];
    for i in 0..occurrences {
        // a parenthesised argument that is not the last one is re-associated by the parser, so
        // only the last position may be parenthesised; earlier ones use names
        let pick = loop {
            let cand = pool[rng.below(pool.len())].clone();
            if i + 1 == occurrences || !cand.starts_with('(') {
                break cand;
            }
        };
        args.push(pick);
    }
    let v_ty = format!("p {}", args.join(" "));
    let body = match rng.below(4) {
        0 => "g _ v".to_owned(),
        1 => "(r = g _ v; r)".to_owned(),
        2 if result == "int" => "g _ v + g _ v".to_owned(),
        _ => "g _ v".to_owned(),
    };
    text.push_str(&format!("  (v : {v_ty}) => {body}\n"));
    text
}

/// W9c: type-level computation: types indexed by integers and booleans, so that conversion has
/// to normalise and unify arithmetic, comparisons and conditionals (closed ones compute, neutral
/// ones are compared structurally).
fn type_level_program(rng: &mut Rng) -> String {
    let ops = ["+", "-", "*"];
    let op = *rng.pick(&ops);
    let a = rng.range(0, 9);
    let b = rng.range(0, 9);
    let cmp = *rng.pick(&["<", "<=", "==", ">", ">="]);
    let templates: Vec<String> = vec![
        // closed arithmetic in an index: must compute
        format!("(vec : int -> type) =>\n(nil : vec 0) =>\n(cons : (n : int) -> vec n -> vec (n + 1)) =>\n  (v : vec ({a} {op} {b})) => cons ({a} {op} {b}) v\n"),
        // neutral arithmetic: structural comparison of sums / products of variables
        format!("(vec : int -> type) =>\n(f : (n : int) -> (m : int) -> vec (n {op} m) -> int) =>\n(n : int) => (m : int) => (v : vec (n {op} m)) => f n m v\n"),
        format!("(vec : int -> type) =>\n(f : (n : int) -> (m : int) -> vec (n {op} m) -> int) =>\n(n : int) => (m : int) => (v : vec (m {op} n)) => f n m v\n"),
        // conditionals and comparisons in types
        format!("ty = (n : int) => if n {cmp} {a} then int else bool\n(x : ty {b}) => (y : ty ({b} + 1)) => x\n"),
        format!("ty = (c : bool) => if c then int else (int -> int)\nf = (x : ty ({a} {cmp} {b})) => x\nf\n"),
        format!("(p : bool -> type) =>\n(use : (c : bool) -> p c -> int) =>\n(n : int) => (w : p (n {cmp} {a})) => use (n {cmp} {a}) w\n"),
        format!("(p : bool -> type) =>\n(use : (c : bool) -> p c -> int) =>\n(n : int) => (w : p (n {cmp} {a})) => use (n {cmp} {b}) w\n"),
        format!("(vec : int -> type) =>\n(neg : (n : int) -> vec n -> vec (-n)) =>\n(k : int) => (v : vec (-k)) => neg (-k) v\n"),
        format!("(vec : int -> type) =>\n(half : (n : int) -> vec (n / 2) -> int) =>\n(v : vec ({a} / 2)) => half {a} v\n"),
        format!("(p : int -> type) =>\n(g : (a : int) -> p (if a {cmp} {b} then a else {a}) -> int) =>\n(z : int) => (w : p (if z {cmp} {b} then z else {a})) => g z w\n"),
        format!("(vec : int -> type) =>\n(app : (n : int) -> (m : int) -> vec n -> vec m -> vec (n + m)) =>\n(x : vec {a}) => (y : vec {b}) => (r : vec ({a} + {b}) -> int) => r (app {a} {b} x y)\n"),
        format!("(vec : int -> type) =>\n(app : (n : int) -> (m : int) -> vec n -> vec m -> vec (n + m)) =>\n(x : vec {a}) => (y : vec {b}) => (r : vec {} -> int) => r (app _ _ x y)\n", a + b + rng.below(2)),
        // stuck sums / products whose corresponding operands are convertible but not written alike
        format!("(vec : int -> type) =>\n(len : int -> int) =>\n(f : (n : int) -> vec (len {a} {op} n) -> int) =>\n(n : int) => (v : vec (len ({} + {}) {op} n)) => f n v\n", a / 2, a - a / 2),
        format!("(vec : int -> type) =>\n(len : int -> int) =>\n(f : (n : int) -> vec (n {op} len ({a} * 1)) -> int) =>\n(n : int) => (v : vec (n {op} len {a})) => f n v\n"),
        format!("(vec : int -> type) =>\n(g : int -> int) => (h : int -> int) =>\n(f : (n : int) -> vec (g (1 + {a}) {op} h n) -> int) =>\n(n : int) => (v : vec (g ({a} + 1) {op} h n)) => f n v\n"),
        // truncating division: agrees with the identity at many points, not at all of them
        format!("(vec : int -> type) =>\n(f : (n : int) -> vec n -> int) =>\n(n : int) => (v : vec (n / {} * {})) => f n v\n", 2 + a % 7, 2 + a % 7),
        format!("(vec : int -> type) =>\n(f : (n : int) -> vec (n / 2) -> int) =>\n(n : int) => (v : vec ((n + 1) / 2)) => f n v\n"),
        format!("two = 1 + 1\n(vec : int -> type) =>\n(len : int -> int) =>\n(f : (n : int) -> vec (len two {op} n) -> int) =>\n(n : int) => (v : vec (len 2 {op} n)) => f n v\n"),
    ];
    templates[rng.below(templates.len())].clone()
}

/// W10: source *layout* that only rendering code cares about: tabs, mixed and ambiguous
/// indentation, very long lines, non-ASCII text around the reported range, ranges spanning lines,
/// CRLF line ends, several diagnostics quoting the same line.
fn layout_program(rng: &mut Rng) -> String {
    let accents = ["é", "ü", "ß", "λ", "中", "ñ", "ø"];
    let long_comment = |rng: &mut Rng, n: usize| -> String {
        let mut t = String::from(" # ");
        for i in 0..n {
            t.push_str(if rng.chance(1, 3) { accents[rng.below(accents.len())] } else { "x" });
            if i % 7 == 6 {
                t.push(' ');
            }
        }
        t
    };
    match rng.below(6) {
        0 => {
            // tabs in quoted lines + indentation steps that tie
            // two different indentation steps, used equally often or not (an indentation guesser
            // has to break the tie)
            let steps = [rng.range(1, 4), rng.range(5, 8)];
            let mut text = String::new();
            let blocks = rng.range(1, 3);
            for b in 0..blocks {
                for (j, step) in steps.iter().enumerate() {
                    if b + 1 == blocks && j == 1 && rng.chance(1, 3) {
                        continue; // sometimes no tie
                    }
                    text.push_str(&format!("f{b}{j} =\n{}(a{b}{j} : int) => a{b}{j}\n", " ".repeat(*step)));
                }
            }
            text.push_str("g =\n  (c : int) =>\n    c\n");
            if rng.chance(1, 2) {
                // without the last block the counts of 2 and of the first step may tie as well
                text = text.replace("g =\n  (c : int) =>\n    c\n", "g = (c : int) => c\n");
            }
            text.push_str(&format!("h =\t{}f zed{}\n", if rng.chance(1, 2) { "\t" } else { "" }, if rng.chance(1, 2) { "\t+ 1" } else { "" }));
            text.push_str("k =\tg\ttrue\n");
            text.push_str("h\n");
            text
        }
        1 => {
            // an error on a very long line with multi-byte characters at various distances
            let before = rng.range(0, 140);
            let after = rng.range(60, 200);
            let pad: String = (0..before).map(|i| if i % 9 == 8 { ' ' } else { 'a' }).collect();
            let name = if before > 0 { format!("{} ", pad.trim()) } else { String::new() };
            let _ = name;
            format!(
                "résultat = 1\ndouble = (n : int) => n + n\nvalue{} = double missing{}\nvalue{}\n",
                before,
                long_comment(rng, after),
                before
            )
        }
        2 => {
            // a long line: many parameters, error in the middle
            let n = rng.range(20, 60);
            let params: String = (0..n).map(|i| format!("(p{i} : int) => ")).collect();
            let at = rng.below(n);
            let tail_len = rng.range(0, 120);
            format!("f = {params}p{at} + true + p0{}\nf\n", long_comment(rng, tail_len))
        }
        3 => {
            // ranges that span several lines, at the end of the file, without a final newline
            let body = match rng.below(3) {
                0 => "if true\n  then 1\n  else\n    (x : int) =>\n      x",
                1 => "(\n  1 +\n  true +\n  2\n)",
                _ => "f = (x : int) =>\n  x\nf\n  true\n  3",
            };
            let tail = match rng.below(3) {
                0 => "",
                1 => "\n",
                _ => "\n\n\n",
            };
            format!("{body}{tail}")
        }
        4 => {
            // CRLF line ends and trailing spaces
            let text = "a = 1\nb = a + missing\nc : bool = a\nb + c\n";
            text.replace('\n', if rng.chance(1, 2) { "\r\n" } else { " \n" })
        }
        _ => {
            // several diagnostics on one line
            let k = rng.range(2, 6);
            let terms: Vec<String> = (0..k).map(|i| if i % 2 == 0 { format!("u{i}") } else { "true".to_owned() }).collect();
            let tail_len = rng.range(0, 100);
            format!("total = {}{}\ntotal\n", terms.join(" + "), long_comment(rng, tail_len))
        }
    }
}

/// W9d: alpha-equivalent dependent types spelled with different binder names, compared with one
/// another and with aliases inside one unification, with a hole in one position (whichever
/// spelling a normal-form cache, an interner or a "seen before" shortcut hands back becomes
/// visible in the elaborated term).
fn alpha_variants_program(rng: &mut Rng) -> String {
    let blocks = rng.range(3, 30);
    let width = rng.range(2, 5);
    let shape = rng.below(3);
    let spell = |name: &str| match shape {
        0 => format!("(({name} : type) -> {name} -> {name})"),
        1 => format!("(({name} : type) -> ({name} -> {name}) -> {name})"),
        _ => format!("(({name} : type) -> {name} -> ({name} -> type))"),
    };
    let alias_body = match shape {
        0 => "(c : type) -> c -> c",
        1 => "(c : type) -> (c -> c) -> c",
        _ => "(c : type) -> c -> (c -> type)",
    };
    let mut lines = vec![format!("poly = {alias_body}")];
    lines.push(format!("(tuple : {}) =>", vec!["type"; width + 2].join(" -> ")));
    for i in 0..blocks {
        let lhs: Vec<String> = (0..width).map(|j| spell(&format!("a{i}x{j}"))).collect();
        let rhs: Vec<String> = (0..width)
            .map(|j| if rng.chance(2, 3) { "poly".to_owned() } else { spell(&format!("c{i}y{j}")) })
            .collect();
        lines.push(format!(
            "g{i} = (f : tuple {} _ -> int) => (p : tuple {} {}) => f p",
            lhs.join(" "),
            rhs.join(" "),
            spell(&format!("b{i}"))
        ));
    }
    lines.push(if rng.chance(1, 2) { "0".to_owned() } else { format!("g{}", rng.below(blocks)) });
    lines.join("\n") + "\n"
}

/// More shapes that seeded changes needed (kept together so that the reason stays visible).
fn targeted_program(rng: &mut Rng) -> String {
    match rng.below(5) {
        4 => {
            // definitions applied (under a lambda, so that the definition-order check accepts it)
            // *before* their own unannotated definition is checked, i.e. while their type is still
            // a hole, and again afterwards, when they have turned out not to be functions; many
            // such triples over abstract types (state that is keyed by a type which is later
            // resolved is only consulted on these)
            let n = rng.range(2, 16);
            let mut lines: Vec<String> = vec![];
            for i in 1..=n {
                lines.push(format!("(t{i} : type) =>"));
            }
            for i in 1..=n {
                lines.push(format!("(v{i} : t{i}) =>"));
            }
            for i in 1..=n {
                lines.push(format!("  a{i} = (u : int) => b{i} u"));
                lines.push(format!("  b{i} = {}", if rng.chance(3, 4) { format!("v{i}") } else { "true".to_owned() }));
                lines.push(format!("  c{i} = (u : int) => b{i} u"));
            }
            lines.push("  0".to_owned());
            lines.join("\n") + "\n"
        }
        0 => {
            // a conversion check that has to unfold a chain of 3-6 definitions, and fails
            // (conversion re-unfolds at every level, so the cost is exponential in the length)
            let n = rng.range(3, 6);
            let mut text = String::from("nat = int\none : nat = 1\n");
            let mut prev = "one".to_owned();
            for i in 0..n {
                let name = format!("step{i}");
                match rng.below(3) {
                    0 => text.push_str(&format!("{name} : nat = {prev} + one\n")),
                    1 => text.push_str(&format!("{name} = (n : nat) => n * {prev}\n")),
                    _ => text.push_str(&format!("{name} : nat = {prev} * 2\n")),
                }
                if !text.lines().last().unwrap_or("").contains("=>") {
                    prev = name;
                }
            }
            text.push_str(&format!("vec = (n : nat) => if n + {prev} == {} then bool else int\n", rng.range(1, 9)));
            text.push_str(&format!("x : vec {prev} = {}\nx\n", if rng.chance(1, 2) { "3" } else { "true" }));
            text
        }
        1 => {
            // substitution that puts a binder under a binder of the same name (the parser forbids
            // writing that, evaluation and type-level application create it)
            let templates = [
                "f = (y : type -> type) => (x : type) => y x\nf ((x : type) => x)\n",
                "app = (g : int -> int) => (n : int) => g n\napp ((n : int) => n + 1)\n",
                "k = (t : type) => (p : t -> type) => (x : t) -> p x\nk int ((x : int) => type)\n",
                "twice = (f : (x : int) -> int) => (x : int) => f (f x)\ntwice ((x : int) => x * x)\n",
                "w = (h : type -> type) => (a : type) => (x : h a) => x\n(v : w ((a : type) => a) int 3) => v\n",
                "c = (f : int -> int -> int) => (x : int) => (y : int) => f y x\nc ((x : int) => (y : int) => x - y)\n",
            ];
            (*rng.pick(&templates)).to_owned()
        }
        2 => {
            // many uses (more than any small cache) of a definition whose annotation has a hole,
            // used in conflicting ways afterwards
            let n = rng.range(40, 130);
            let mut text = String::from("p = f 3\n");
            for k in 0..n {
                text.push_str(&format!("q{k} = f {k}\n"));
            }
            match rng.below(3) {
                0 => text.push_str("c = p 4 + 1\nd = if p 5 then 1 else 2\n"),
                1 => text.push_str("c = p 4 + 1\nd = p 5 + 2\n"),
                _ => text.push_str("c = if p 4 then 1 else 2\nd = p 5 + q0 1\n"),
            }
            text.push_str("f : (int -> int -> _) = (x : int) => (y : int) => x\nd\n");
            text
        }
        _ => {
            // many definitions with holes in their annotations, each used once or twice
            let n = rng.range(5, 30);
            let mut text = String::new();
            for k in 0..n {
                text.push_str(&format!("u{k} = g{} {k}\n", k % 3));
            }
            for j in 0..3 {
                text.push_str(&format!("g{j} : (int -> _) = (x : int) => {}\n", ["x", "x == 0", "(y : int) => x + y"][j]));
            }
            text.push_str(&format!("u{}\n", rng.below(n)));
            text
        }
    }
}

/// Generic perturbations, applied on top of any family so that the features individual seeded
/// changes needed (many names in scope, near-miss names, holes instead of annotations, forward
/// references, repeated diagnostics, awkward layout, long types) occur *in combination* with
/// everything else rather than only in their own family.
pub fn perturb(rng: &mut Rng, source: &str) -> String {
    let mut text = source.to_owned();
    let rounds = rng.range(1, 3);
    for _ in 0..rounds {
        let lines: Vec<String> = text.split_inclusive('\n').map(str::to_owned).collect();
        // top-level definition lines: `name = …` / `name : T = …` starting in column 0
        let is_def = |l: &str| {
            let t = l.trim_end();
            !t.is_empty()
                && !t.starts_with(' ')
                && !t.starts_with('\t')
                && !t.starts_with('(')
                && !t.starts_with('#')
                && t.split_whitespace().nth(1).is_some_and(|w| w == "=" || w == ":")
        };
        text = match rng.below(12) {
            9 => {
                // unused definitions in front, the first of which cannot be evaluated
                let junk = match rng.below(3) {
                    0 => "unused1 = 10 / 0\nunused2 = 100\n",
                    1 => "unused1 = 1 / (2 - 2)\nunused2 = (x : int) => x\nunused3 = 7\n",
                    _ => "unused1 = 5\nunused2 = 3 / 0\n",
                };
                format!("{junk}{text}")
            }
            10 => {
                // the result becomes a let-bound name at the end of a chain of aliases
                let k = rng.range(1, 6);
                let mut lines = lines;
                if let Some(last) = lines.pop() {
                    let body = last.trim_end().to_owned();
                    if body.is_empty() || body.contains(" = ") {
                        lines.push(last);
                        lines.concat()
                    } else {
                        let mut tail = format!("res0 = {body}\n");
                        for i in 1..=k {
                            tail.push_str(&format!("res{i} = res{}\n", i - 1));
                        }
                        tail.push_str(&format!("res{k}\n"));
                        format!("{}{tail}", lines.concat())
                    }
                } else {
                    text
                }
            }
            11 => {
                // annotations go through a chain of type aliases
                let k = rng.range(2, 6);
                let mut head = String::from("alias0 = int\n");
                for i in 1..=k {
                    head.push_str(&format!("alias{i} = alias{}\n", i - 1));
                }
                format!("{head}{}", text.replace(" : int", &format!(" : alias{k}")))
            }
            0 => {
                // many more names in scope (thresholds: 10, 16, 32, 64, 128)
                let n = *rng.pick(&[12usize, 20, 36, 70, 140]);
                let stem = *rng.pick(&["fill", "item", "aux_", "v"]);
                let mut filler = String::new();
                for k in 0..n {
                    filler.push_str(&format!("{stem}{k:03} = {k}\n"));
                }
                format!("{filler}{text}")
            }
            1 => {
                // a near-miss of a name that is used: drop, double or change one character
                let tokens = rough_tokens(&text);
                let idents: Vec<usize> = tokens
                    .iter()
                    .enumerate()
                    .filter(|(_, t)| {
                        t.len() >= 2
                            && t.chars().next().is_some_and(|c| c.is_alphabetic())
                            && !KEYWORDS.contains(&t.as_str())
                    })
                    .map(|(i, _)| i)
                    .collect();
                if idents.is_empty() {
                    text
                } else {
                    let mut tokens = tokens;
                    let at = idents[rng.below(idents.len())];
                    let word: Vec<char> = tokens[at].chars().collect();
                    let pos = rng.below(word.len());
                    let mut w = word.clone();
                    match rng.below(3) {
                        0 => {
                            w.remove(pos);
                        }
                        1 => w.insert(pos, word[pos]),
                        _ => w[pos] = if word[pos] == 'x' { 'y' } else { 'x' },
                    }
                    tokens[at] = w.into_iter().collect();
                    join_tokens(&tokens)
                }
            }
            2 => {
                // a hole instead of an annotation
                let needles = [" : int)", " : bool)", " : type)", " : a)", " : int =", " : bool ="];
                let needle = needles[rng.below(needles.len())];
                if let Some(pos) = text.find(needle) {
                    let replacement = needle.replace("int", "_").replace("bool", "_").replace("type", "_").replace(": a", ": _");
                    format!("{}{}{}", &text[..pos], replacement, &text[pos + needle.len()..])
                } else {
                    text
                }
            }
            3 => {
                // forward references: move a definition line further down (or up)
                let defs: Vec<usize> = lines.iter().enumerate().filter(|(_, l)| is_def(l)).map(|(i, _)| i).collect();
                if defs.len() >= 2 {
                    let mut lines = lines;
                    let a = defs[rng.below(defs.len())];
                    let b = defs[rng.below(defs.len())];
                    lines.swap(a, b);
                    lines.concat()
                } else {
                    text
                }
            }
            4 => {
                // the same diagnostic several times: repeat a line under fresh names, or verbatim
                let defs: Vec<usize> = lines.iter().enumerate().filter(|(_, l)| is_def(l)).map(|(i, _)| i).collect();
                if defs.is_empty() {
                    text
                } else {
                    let mut lines = lines;
                    let at = defs[rng.below(defs.len())];
                    let line = lines[at].clone();
                    let copies = rng.range(1, 4);
                    for c in 0..copies {
                        let copy = if rng.chance(1, 3) {
                            line.clone()
                        } else {
                            match line.split_once(' ') {
                                Some((name, rest)) => format!("{name}_{c} {rest}"),
                                None => line.clone(),
                            }
                        };
                        lines.insert(at + 1, copy);
                    }
                    lines.concat()
                }
            }
            5 => {
                // awkward layout: a tab after `=`, a long comment with multi-byte text, CRLF
                match rng.below(3) {
                    0 => text.replacen(" = ", " =\t", rng.range(1, 3)),
                    1 => {
                        let mut lines = lines;
                        if !lines.is_empty() {
                            let at = rng.below(lines.len());
                            let body = lines[at].trim_end_matches('\n').to_owned();
                            let pad: String =
                                (0..rng.range(40, 160)).map(|i| if i % 5 == 4 { 'é' } else { 'c' }).collect();
                            lines[at] = format!("{body} # {pad}\n");
                        }
                        lines.concat()
                    }
                    _ => text.replace('\n', "\r\n"),
                }
            }
            6 => {
                // long types: wrap the whole program in many parameters
                let n = rng.range(25, 120);
                let binders: String = (0..n).map(|i| format!("(w{i} : int) => ")).collect();
                format!("{binders}(\n{}\n)\n", text.trim_end())
            }
            7 => {
                // an unused definition group in front that is itself in error
                let junk = match rng.below(4) {
                    0 => "junk1 = junk2 + 1\njunk2 = 2 + 2\n",
                    1 => "junk1 : bool = 1\njunk2 : int = true\n",
                    2 => "junk1 = missing_a + missing_a\njunk2 = missing_b + missing_b\n",
                    _ => "junk1 = (q : _) => (r : _) => q\n",
                };
                format!("{junk}{text}")
            }
            _ => {
                // the body applied to / wrapped in something that makes it a bigger value
                format!("wrapped = (\n{}\n)\n(z : int) => wrapped\n", text.trim_end())
            }
        };
    }
    text
}

/// W12: programs that are accepted and never terminate, built so that their states recur only up
/// to renaming (callbacks spelled with different binder names rotate through the arguments). On
/// the unchanged tree every launch of such a program hits the cap and the group is discarded;
/// they are there for changes that make divergent programs *end* (loop detectors, fuel limits).
/// W13 scale: programs whose *sizes* sit around the points where containers grow, rehash or run
/// out of reserved room (7/8 of a power of two for hash tables, powers of two for vectors):
/// that many names in scope at once, with distinctly named binders coming and going while the
/// tables are that full. Anything that consults a capacity, a load factor, a tombstone count or a
/// bucket mask only changes its mind on such programs (S55).
fn scale_program(rng: &mut Rng) -> String {
    let n = if rng.chance(3, 5) {
        let pivot = *rng.pick(&[14usize, 28, 56, 112, 224, 448, 448, 448]);
        // 80 % .. 105 % of the pivot
        pivot * rng.range(80, 105) / 100
    } else {
        // log-uniform between 30 and 600
        let lo = 30f64.ln();
        let hi = 600f64.ln();
        (lo + (hi - lo) * (rng.below(10_000) as f64 / 10_000.0)).exp() as usize
    };
    let n = n.max(4);
    let mut text = String::new();
    let shape = rng.below(6);
    match shape {
        0 | 1 => {
            // n one-parameter functions, every parameter name distinct
            for i in 0..n {
                text.push_str(&format!("f{i} = (p{i} : int) => p{i} + {}\n", i % 7));
            }
            text.push_str(&format!("f{} {}\n", rng.below(n), rng.below(9)));
        }
        2 => {
            // n definitions, each with a nested group of its own (names come and go in batches)
            for i in 0..n {
                text.push_str(&format!("g{i} = (q{i} : int) => (l{i} = q{i} * 2; m{i} = l{i} + 1; m{i})\n"));
            }
            text.push_str(&format!("g{} 1\n", rng.below(n)));
        }
        3 => {
            // a chain: each definition uses the previous one (values only at the ends)
            text.push_str("c0 = (z : int) => z\n");
            for i in 1..n {
                text.push_str(&format!("c{i} = (w{i} : int) => c{} (w{i} + 1)\n", i - 1));
            }
            text.push_str(&format!("c{} 0\n", rng.below(n)));
        }
        4 => {
            // the same, ending in a misspelt name (suggestion logic walks the whole scope) and a
            // type error
            for i in 0..n {
                text.push_str(&format!("name{i} = (arg{i} : int) => arg{i}\n"));
            }
            let k = rng.below(n);
            text.push_str(&format!("bad = name{k} true\nnam{k}x 1 + nmae{}\n", rng.below(n)));
        }
        _ => {
            // several hundred names under nested binders (bounded depth: the stack is finite)
            let depth = n.min(160);
            for i in 0..n - depth {
                text.push_str(&format!("k{i} = {i}\n"));
            }
            text.push_str("deep = ");
            for i in 0..depth {
                text.push_str(&format!("(b{i} : int) => "));
            }
            text.push_str(&format!("b0 + b{} + k0\n", depth - 1));
            text.push_str("deep\n");
        }
    }
    text
}

/// W14 sibling scopes: several nested groups of *identical shape at equal depth* whose local
/// definitions differ (`t = int` here, `t = bool` there), so that the same question - same de
/// Bruijn indices, same structure - has different answers in different scopes; between them,
/// scopes that make the checker answer dozens of other distinct questions. State that is keyed by
/// shape and depth but not by what the context holds (a memo of unifications or normal forms, a
/// bounded cache with seed-dependent eviction) gives launch-dependent verdicts only here (S70).
fn sibling_scopes_program(rng: &mut Rng) -> String {
    let tys = ["int", "bool", "type"];
    let lits = ["1", "true", "int", "2 + 3"];
    let siblings = rng.range(2, 5);
    let lit = *rng.pick(&lits);
    let with_fun = rng.chance(1, 2);
    let with_alias = rng.chance(1, 3);
    let mut text = String::new();
    let mut serial = 0;
    for i in 0..siblings {
        let t = if i == 0 { "int" } else { *rng.pick(&tys) };
        text.push_str(&format!("s{i} = (\n  t = {t}\n"));
        if with_alias {
            text.push_str("  u = t\n  v : u = ");
        } else {
            text.push_str("  v : t = ");
        }
        text.push_str(lit);
        text.push('\n');
        if with_fun {
            text.push_str("  w : (t -> t) = (x : t) => x\n");
        }
        text.push_str("  v\n)\n");
        if i + 1 < siblings {
            // pressure: n definitions whose annotations are all different
            let n = *rng.pick(&[0usize, 4, 12, 31, 31, 60, 120]);
            if n > 0 {
                let bits = 3 + rng.below(4);
                text.push_str(&format!("k{i} = (\n  t = int\n"));
                for j in 1..=n {
                    serial += 1;
                    let mut ann = String::new();
                    let mut def = String::new();
                    for b in 0..bits {
                        let pick = (j >> b) & 1;
                        ann.push_str(if pick == 1 { "t -> " } else if (serial + b) % 3 == 0 { "bool -> " } else { "int -> " });
                        let dom = if pick == 1 { "int" } else if (serial + b) % 3 == 0 { "bool" } else { "int" };
                        def.push_str(&format!("(a{b} : {dom}) => "));
                    }
                    text.push_str(&format!("  f{serial} : ({ann}int) = {def}{}\n", j % 5));
                }
                text.push_str("  0\n)\n");
            }
        }
    }
    text.push_str(&format!("s{}\n", rng.below(siblings)));
    text
}

/// W13b bytes: files whose *length in bytes* sits around typical buffer, chunk and page sizes
/// (16 KiB ... 256 KiB), cheap for every stage because most of it is comments: a few definitions,
/// and 0 ... 200 stray symbols or misspelt names spread evenly over the whole length. Anything that
/// splits the text into pieces, caps the number of diagnostics across pieces, or switches strategy
/// above a size only does so on files like these (S72).
fn bytes_program(rng: &mut Rng) -> String {
    // one file in four carries a single special character placed across an equal-split boundary
    let straddle = rng.chance(1, 4);
    let kib = if straddle { *rng.pick(&[64usize, 256, 256, 256]) } else { *rng.pick(&[4usize, 8, 16, 32, 64, 64, 64, 128, 128, 256]) };
    let target = if straddle { kib * 1024 * rng.range(101, 125) / 100 } else { kib * 1024 * rng.range(90, 125) / 100 };
    let strays = if straddle { 0 } else { *rng.pick(&[0usize, 0, 3, 12, 25, 25, 60, 200]) };
    let defs = rng.range(2, 30);
    let stray_syms = ["$", "@", "~", "`", "^", "§", "€"];
    // how lines end: plain, CRLF, trailing spaces, a trailing tab, or a mixture by line
    let ending_style = rng.below(6);
    let ending = |i: usize| -> &'static str {
        match ending_style {
            0 | 1 => "\n",
            2 => "\r\n",
            3 => "  \n",
            4 => "\t\n",
            _ => ["\n", "  \n", "\r\n", " \t\n"][i % 4],
        }
    };
    // about 60 bytes per line
    let lines = target / 60 + 1;
    let stray_every = if strays > 0 { (lines / strays).max(1) } else { usize::MAX };
    let def_every = (lines / defs).max(1);
    let unbound = rng.chance(1, 5);
    let mut text = String::with_capacity(target + 4096);
    let mut defined = 0usize;
    for i in 0..lines {
        if i % def_every == def_every / 2 && defined < defs {
            if defined == 0 {
                text.push_str("d0 = 1");
            } else if unbound && defined % 4 == 3 {
                text.push_str(&format!("d{defined} = d{} + missing{defined}", defined - 1));
            } else {
                text.push_str(&format!("d{defined} = d{} + {i}", defined - 1));
            }
            text.push_str(ending(i));
            defined += 1;
        } else if stray_every != usize::MAX && i % stray_every == stray_every / 3 {
            let sym = stray_syms[(i / stray_every) % stray_syms.len()];
            text.push_str(&format!("# line {i:06} has a stray symbol after this comment{}{sym}{}", ending(i), ending(i + 1)));
        } else {
            text.push_str(&format!("# line {i:06} ---------------------------------------------{}", ending(i)));
        }
    }
    text.push_str(&format!("d{}\n", defined.saturating_sub(1)));
    if straddle {
        // Exactly one special three-byte character (a bidirectional control, a zero-width
        // joiner, a byte-order mark, a line separator ...) inside a comment, its bytes lying
        // across offset ceil(len / n) * k for some n in 2..=8: code that cuts the text into n equal
        // pieces (n from the processor count, say) sees it whole for some n and cut for others.
        let specials = ["\u{202e}", "\u{2066}", "\u{202a}", "\u{200d}", "\u{feff}", "\u{2028}", "\u{2069}", "\u{20ac}"];
        let special = *rng.pick(&specials);
        let len = text.len();
        let mut bytes = text.into_bytes();
        for _ in 0..40 {
            let n = rng.range(2, 8);
            let k = rng.range(1, n - 1);
            let boundary = len.div_ceil(n) * k;
            let start = boundary - rng.range(1, 2);
            if start + 3 >= len || start < 4 {
                continue;
            }
            // the three bytes replaced must be plain dashes of a comment line
            if bytes[start..start + 3].iter().all(|&c| c == b'-') {
                bytes[start..start + 3].copy_from_slice(special.as_bytes());
                break;
            }
        }
        text = String::from_utf8(bytes).unwrap_or_default();
    }
    text
}

/// Long names: one to four definitions whose names are 30-70 bytes long and contain a few
/// non-ASCII letters, and misspelt pure-ASCII uses of them whose edit distance sits around a third
/// of the length - the region where "did you mean" logic changes its mind. Code that handles
/// names bytewise, with fixed-size tables or with bit-parallel tricks, only meets bytes >= 0x80,
/// positions >= 32 or 64 and distances near its threshold on programs like these (S88).
fn long_names_program(rng: &mut Rng) -> String {
    let letters = b"abcdefghijklmnopqrstuvwxyz_";
    let foreign = ["é", "ß", "ö", "λ", "я", "ñ", "ü", "ç"];
    let n = rng.range(1, 4);
    let mut defs = String::new();
    let mut uses: Vec<String> = vec![];
    for d in 0..n {
        let len = rng.range(30, 70);
        let base: Vec<u8> = (0..len).map(|i| if i == 0 { b'a' + (d as u8) } else { letters[rng.below(letters.len())] }).collect();
        // the name in scope: a few letters replaced by non-ASCII ones
        let k1 = rng.range(1, 6);
        let mut in_scope: Vec<String> = base.iter().map(|&b| (b as char).to_string()).collect();
        for _ in 0..k1 {
            let at = rng.range(1, len - 1);
            in_scope[at] = (*rng.pick(&foreign)).to_owned();
        }
        // the misspelt use: pure ASCII, some more letters changed, total distance near len / 3
        let want = (len / 3 + rng.range(0, 7)).saturating_sub(3 + 2 * k1);
        let mut used = base.clone();
        for _ in 0..want {
            let at = rng.range(1, len - 1);
            used[at] = if used[at] == b'x' { b'y' } else { b'x' };
        }
        defs.push_str(&format!("{} = {}\n", in_scope.concat(), d + 1));
        uses.push(String::from_utf8(used).unwrap_or_default());
    }
    format!("{defs}{}\n", uses.join(" + "))
}

fn divergent_program(rng: &mut Rng) -> String {
    let k = rng.range(2, 7);
    let names = ["x", "y", "z", "u", "v", "w", "t"];
    let params: Vec<String> = (0..k).map(|i| format!("f{i}")).collect();
    let ty = vec!["(int -> int)"; k].join(" -> ");
    let binders: String = params.iter().map(|p| format!("{p} => ")).collect();
    let mut rotated = params.clone();
    rotated.rotate_left(1);
    let callbacks: Vec<String> = (0..k)
        .map(|i| {
            let n = names[i % names.len()];
            if rng.chance(1, 4) { format!("(({n} : int) => {n} + 0)") } else { format!("(({n} : int) => {n})") }
        })
        .collect();
    match rng.below(3) {
        0 => format!("spin : ({ty} -> int) = {binders}spin {}\nspin {}\n", rotated.join(" "), callbacks.join(" ")),
        1 => format!(
            "spin : ({ty} -> int -> int) = {binders}n => spin {} (n + 0)\nspin {} 0\n",
            rotated.join(" "),
            callbacks.join(" ")
        ),
        _ => format!("loop : (int -> int) = n => loop (n + {})\nloop 0\n", rng.below(3)),
    }
}

/// Generated case number `index` of the stream; `corpus` is W1.
pub fn generate(rng: &mut Rng, corpus: &[String]) -> Case {
    if rng.chance(3, 1000) {
        return Case { family: "W12-divergent", source: divergent_program(rng) };
    }
    let case = generate_base(rng, corpus);
    // one case in four is perturbed (the family label keeps its base)
    if rng.chance(1, 4) && case.source.len() < 6000 && case.family != "W13-scale" {
        Case { family: case.family, source: perturb(rng, &case.source) }
    } else {
        case
    }
}

fn generate_base(rng: &mut Rng, corpus: &[String]) -> Case {
    // Swarm: the mix is itself drawn per case.
    let family = rng.below(100);
    let base_from_corpus = |rng: &mut Rng| -> String {
        if corpus.is_empty() {
            "x = 1; x\n".to_owned()
        } else {
            corpus[rng.below(corpus.len())].clone()
        }
    };
    match family {
        0..=19 => Case { family: "W2-clusters", source: cluster_program(rng) },
        20 => Case { family: "W13-scale", source: scale_program(rng) },
        21 => Case { family: "W13-scale", source: bytes_program(rng) },
        22..=33 => {
            let n = rng.range(2, 5);
            Case { family: "W3-multi-fault", source: typed_program(rng, n, false) }
        }
        34..=38 => Case { family: "W3-many-errors", source: many_errors_program(rng) },
        39 => Case { family: "W3-many-errors", source: if rng.chance(1, 2) { long_names_program(rng) } else { many_errors_program(rng) } },
        40..=50 => {
            let base = match rng.below(4) {
                0 => base_from_corpus(rng),
                1 => cluster_program(rng),
                2 => rich_program(rng),
                _ => typed_program(rng, 0, false),
            };
            Case { family: "W4-syntax-fault", source: syntax_faults(rng, &base) }
        }
        51..=57 => {
            let base = match rng.below(3) {
                0 => base_from_corpus(rng),
                1 => cluster_program(rng),
                _ => typed_program(rng, 0, false),
            };
            Case { family: "W5-lexical-fault", source: lexical_faults(rng, &base) }
        }
        58..=67 => {
            let source = if rng.chance(1, 2) { rich_program(rng) } else { typed_program(rng, 0, true) };
            Case { family: "W6-rich-accepted", source }
        }
        68 => Case { family: "W14-sibling-scopes", source: sibling_scopes_program(rng) },
        69..=73 => Case { family: "W6-holes", source: holes_program(rng) },
        74..=79 => Case { family: "W8-runtime", source: runtime_program(rng) },
        80..=85 => {
            let source = match rng.below(7) {
                0 | 1 => hole_argument_program(rng),
                2 => type_level_program(rng),
                3 => alpha_variants_program(rng),
                _ => dependent_program(rng),
            };
            Case { family: "W9-dependent", source }
        }
        86..=88 => Case { family: "W10-layout", source: layout_program(rng) },
        89..=90 => Case { family: "W9-dependent", source: targeted_program(rng) },
        91..=95 => Case { family: "W7-composite", source: composite(rng, corpus) },
        _ => {
            // splice two corpus programs at token granularity
            let a = rough_tokens(&base_from_corpus(rng));
            let b = rough_tokens(&base_from_corpus(rng));
            let cut_a = rng.below(a.len() + 1);
            let cut_b = rng.below(b.len() + 1);
            let mut t: Vec<String> = a[..cut_a].to_vec();
            t.extend_from_slice(&b[cut_b..]);
            Case { family: "W4-syntax-fault", source: join_tokens(&t) }
        }
    }
}
