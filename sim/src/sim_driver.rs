//! Driver: derives groups from VERIF_SEED, farms them out to worker processes, evaluates the
//! oracle's verdicts over the recorded history, minimises and reports violations, and writes the
//! evidence file.

use crate::sim_args::Args;
use crate::sim_entropy::Plan;
use crate::sim_exec::{self, Colour, ExecEnv};
use crate::sim_group::{self, Spec, Tier};
use crate::sim_harvest;
use crate::sim_min;
use crate::sim_pool::{Reply, WorkerProc};
use crate::sim_rng::{Rng, fnv};
use crate::sim_worker::{envs_from, shape_for};
use serde_json::{Map, Value, json};
use std::collections::{BTreeMap, BTreeSet};
use std::fs;
use std::sync::atomic::{AtomicBool, AtomicUsize, Ordering};
use std::sync::{Arc, Mutex};
use std::time::{Duration, Instant};

/// Result of one exploration phase: one JSON record per group, ordered by group index.
pub struct Phase {
    pub tier: Tier,
    pub records: Vec<Value>,
    pub wall_s: f64,
}

fn stub_record(args: &Args, tier: Tier, idx: usize, corpus: &[String], status: &str, note: &str) -> Value {
    let spec = sim_group::derive_spec(args.seed, tier, idx, corpus, shape_for(args, tier));
    json!({
        "idx": idx,
        "tier": tier.name(),
        "family": spec.family,
        "form": spec.form.name(),
        "colour": spec.colour.name(),
        "file_hash": format!("{:016x}", fnv(&spec.source)),
        "file_len": spec.source.len(),
        "status": status,
        "note": note,
        "launches": 0,
        "class": "none",
        "nontrivial": false,
        "fired": {},
        "inert": 0,
        "event": "0",
        "orders": [],
        "keys": [],
    })
}

/// Run groups `0..count` of `tier` (or until `deadline`) on `jobs` worker processes.
pub fn run_phase(
    args: &Args,
    tier: Tier,
    count: usize,
    deadline: Option<Instant>,
    corpus: &Arc<Vec<String>>,
) -> Result<Phase, String> {
    let started = Instant::now();
    let next = Arc::new(AtomicUsize::new(0));
    let failed = Arc::new(AtomicBool::new(false));
    let results: Arc<Mutex<Vec<Value>>> = Arc::new(Mutex::new(vec![]));
    let group_timeout = match tier {
        Tier::InProc => Duration::from_millis(args.cap_ms),
        Tier::Exec => Duration::from_millis(args.cap_ms * (args.ex_plans as u64) + 20_000),
    };
    let mut handles = vec![];
    for _ in 0..args.jobs {
        let args = args.clone();
        let next = next.clone();
        let failed = failed.clone();
        let results = results.clone();
        let corpus = corpus.clone();
        handles.push(std::thread::spawn(move || {
            let mut worker: Option<WorkerProc> = None;
            let mut respawns = 0usize;
            loop {
                if let Some(d) = deadline {
                    if Instant::now() >= d {
                        break;
                    }
                }
                let idx = next.fetch_add(1, Ordering::SeqCst);
                if idx >= count {
                    break;
                }
                if worker.is_none() {
                    match WorkerProc::spawn(&args) {
                        Ok(w) => worker = Some(w),
                        Err(_) => {
                            failed.store(true, Ordering::SeqCst);
                            break;
                        }
                    }
                }
                let w = worker.as_mut().unwrap();
                let job = json!({"job": "group", "tier": tier.name(), "idx": idx});
                let record = match w.request(&job, group_timeout) {
                    Reply::Ok(v) => v,
                    Reply::TimedOut => {
                        worker = None;
                        respawns += 1;
                        stub_record(&args, tier, idx, &corpus, "skipped_divergent", "group exceeded the wall-clock cap")
                    }
                    Reply::Died(how) => {
                        worker = None;
                        respawns += 1;
                        let mut record =
                            stub_record(&args, tier, idx, &corpus, "skipped_resource", &format!("worker ended: {how}"));
                        if tier == Tier::InProc {
                            // second chance: the same group with a process per launch
                            if let Ok(mut w2) = WorkerProc::spawn(&args) {
                                let retry = json!({"job": "group", "tier": tier.name(), "idx": idx, "isolation": "process"});
                                if let Reply::Ok(v) = w2.request(&retry, group_timeout) {
                                    record = v;
                                }
                            }
                        }
                        record
                    }
                };
                results.lock().unwrap().push(record);
                let _ = respawns;
            }
        }));
    }
    for h in handles {
        let _ = h.join();
    }
    if failed.load(Ordering::SeqCst) {
        return Err("could not start a worker process".to_owned());
    }
    let mut records = std::mem::take(&mut *results.lock().unwrap());
    records.sort_by_key(|r| r.get("idx").and_then(Value::as_u64).unwrap_or(0));
    Ok(Phase { tier, records, wall_s: started.elapsed().as_secs_f64() })
}

/// Canary of the exec seam: the same path, a program whose output is *known* to depend on the
/// hash keys and on the layout.
pub struct CanaryReport {
    pub entropy_live: bool,
    pub entropy_repeatable: bool,
    pub layout_controlled: bool,
    pub layout_skew_acts: bool,
    pub clock_pid_live: bool,
    pub fork_server_live: bool,
    pub tid_seam_live: bool,
    pub memstat_seam_live: bool,
    pub rusage_seam_live: bool,
    pub timed_wait_seam_live: bool,
    pub urandom_seam_live: bool,
    pub distinct_outputs: usize,
    /// "0,1;0,2,1;…" per canary key, as the real process printed it
    pub orders_per_key: Vec<String>,
    pub note: String,
}

pub fn exec_canary(args: &Args) -> CanaryReport {
    let env = ExecEnv::new(args.gram.clone(), args.shim.clone(), Duration::from_secs(20), 0);
    let dir = args.work.join(&args.run_id).join("canary");
    let mut report = CanaryReport {
        entropy_live: false,
        entropy_repeatable: false,
        layout_controlled: false,
        layout_skew_acts: false,
        clock_pid_live: false,
        fork_server_live: false,
        tid_seam_live: false,
        memstat_seam_live: false,
        rusage_seam_live: false,
        timed_wait_seam_live: false,
        urandom_seam_live: false,
        distinct_outputs: 0,
        orders_per_key: vec![],
        note: String::new(),
    };
    if let Err(e) = fs::create_dir_all(&dir) {
        report.note = format!("scratch: {e}");
        return report;
    }
    let mut rng = Rng::derive(args.seed, 0xCA7A, 0);
    let keys: Vec<[u8; 16]> = (0..6).map(|_| rng.bytes16()).collect();
    let mut outputs: Vec<Vec<u8>> = vec![];
    let mut repeatable = true;
    let mut layout_same = true;
    for (i, key) in keys.iter().enumerate() {
        let plan = Plan::plain("canary", *key);
        let a = sim_exec::launch_program(&env, &args.canary, &[], &dir, &dir, Colour::NoColor, &plan, &format!("c{i}a"));
        let b = sim_exec::launch_program(&env, &args.canary, &[], &dir, &dir, Colour::NoColor, &plan, &format!("c{i}b"));
        match (a, b) {
            (Ok((a, la)), Ok((b, _))) => {
                if la.delivered() < 16 {
                    report.note = "the canary never called the interposed getrandom".to_owned();
                }
                let sa = String::from_utf8_lossy(&a.stdout).into_owned();
                let sb = String::from_utf8_lossy(&b.stdout).into_owned();
                let orders = |s: &str| s.split(' ').next().unwrap_or("").to_owned();
                if orders(&sa) != orders(&sb) || sa.is_empty() {
                    repeatable = false;
                }
                if sa != sb {
                    layout_same = false;
                }
                outputs.push(orders(&sa).into_bytes());
            }
            (Err(e), _) | (_, Err(e)) => {
                report.note = e;
                repeatable = false;
            }
        }
    }
    let distinct: BTreeSet<&Vec<u8>> = outputs.iter().collect();
    report.distinct_outputs = distinct.len();
    report.orders_per_key = outputs.iter().map(|o| String::from_utf8_lossy(o).into_owned()).collect();
    report.entropy_live = distinct.len() >= 2;
    report.entropy_repeatable = repeatable;
    report.layout_controlled = layout_same && repeatable;
    // displacement must move the heap
    let base = Plan::plain("canary", keys[0]);
    let mut skewed = base.clone();
    skewed.skew_heap = 65_536;
    skewed.skew_mmap = (3 * 64 << 20) + 4096;
    skewed.env_pad = 3_000;
    if let (Ok((a, _)), Ok((b, lb))) = (
        sim_exec::launch_program(&env, &args.canary, &[], &dir, &dir, Colour::NoColor, &base, "cs0"),
        sim_exec::launch_program(&env, &args.canary, &[], &dir, &dir, Colour::NoColor, &skewed, "cs1"),
    ) {
        report.layout_skew_acts = a.stdout != b.stdout && lb.skewed;
    }
    // the same canary through the fork server: all seams must act there too
    let mut fork_ok = true;
    let mut fork_outputs: Vec<String> = vec![];
    for (i, key) in keys.iter().enumerate().take(3) {
        let mut plan = Plan::plain("canary", *key);
        plan.clock_base = 1_000_000 + i as u64;
        plan.pid = 500 + i as u32;
        plan.skew_mmap = (i as u64) * (64 << 20);
        match sim_exec::launch_forked(&env, &args.canary, &[], &dir, &dir, Colour::NoColor, &plan, &format!("cf{i}")) {
            Ok((o, log)) => {
                let text = String::from_utf8_lossy(&o.stdout).into_owned();
                let orders = text.split(' ').next().unwrap_or("").to_owned();
                if orders.as_bytes() != outputs[i].as_slice()
                    || !text.contains(&format!("wall={}", 1_000_000 + i))
                    || !text.contains(&format!("pid={}", 500 + i))
                    || log.delivered() < 16
                {
                    fork_ok = false;
                    report.note = format!("fork-server canary mismatch: {text:?}");
                }
                fork_outputs.push(text);
            }
            Err(e) => {
                fork_ok = false;
                report.note = format!("fork server: {e}");
            }
        }
    }
    report.fork_server_live = fork_ok && fork_outputs.len() == 3;
    // clock and pid seams: the canary must echo exactly what the plan says
    let mut ident = base.clone();
    ident.clock_base = 1_234_567_890;
    ident.clock_step_ns = 777;
    ident.pid = 31_337;
    ident.rss_kib = 123_456;
    ident.wait_ppm = 0;
    if let Ok((o, log)) = sim_exec::launch_program(&env, &args.canary, &[], &dir, &dir, Colour::NoColor, &ident, "ci") {
        let text = String::from_utf8_lossy(&o.stdout).into_owned();
        report.clock_pid_live = text.contains("wall=1234567890")
            && text.contains("dt=777")
            && text.contains("pid=31337")
            && log.clock_reads >= 3;
        report.tid_seam_live = text.contains("tid=31337");
        report.memstat_seam_live = text.contains("VmRSS:=123456=kB");
        report.rusage_seam_live = text.contains("maxrss=123456");
        report.timed_wait_seam_live = text.contains("slept_ms=50") && text.contains("waited_ms=30");
        // /dev/urandom starts with the plan's key
        let k = &ident.key;
        report.urandom_seam_live = text.contains(&format!("urandom={:02x}{:02x}{:02x}{:02x}", k[0], k[1], k[2], k[3]));
    }
    let _ = fs::remove_dir_all(&dir);
    report
}

/// Canary of the in-process seam: iteration orders as seen by a worker process under given keys.
pub fn inproc_canary(args: &Args) -> (bool, bool, usize, Vec<String>) {
    let Ok(mut w) = WorkerProc::spawn(args) else {
        return (false, false, 0, vec![]);
    };
    // the same keys as the exec canary, so that the two tiers can be compared with each other
    let mut rng = Rng::derive(args.seed, 0xCA7A, 0);
    let mut outputs = vec![];
    let mut repeatable = true;
    for _ in 0..6 {
        let plan = Plan::plain("canary", rng.bytes16());
        let job = json!({"job": "orders", "plan": plan.to_json()});
        let a = w.request(&job, Duration::from_secs(20));
        let b = w.request(&job, Duration::from_secs(20));
        match (a, b) {
            (Reply::Ok(a), Reply::Ok(b)) => {
                if a != b {
                    repeatable = false;
                }
                // same rendering as shim/canary.rs: "0,1;0,2,1;…;"
                let mut text = String::new();
                if let Some(sets) = a.get("orders").and_then(Value::as_array) {
                    for set in sets {
                        let items: Vec<String> = set
                            .as_array()
                            .map(|v| v.iter().map(|x| x.as_u64().unwrap_or(0).to_string()).collect())
                            .unwrap_or_default();
                        text.push_str(&items.join(","));
                        text.push(';');
                    }
                }
                outputs.push(text);
            }
            _ => repeatable = false,
        }
    }
    let distinct: BTreeSet<&String> = outputs.iter().collect();
    (distinct.len() >= 2, repeatable, distinct.len(), outputs.clone())
}

#[derive(Default)]
struct Totals {
    groups: u64,
    launches: u64,
    compared_groups: u64,
    status: BTreeMap<String, u64>,
    family: BTreeMap<String, u64>,
    class: BTreeMap<String, u64>,
    fired: BTreeMap<String, u64>,
    forms: BTreeMap<String, u64>,
    launchers: BTreeMap<String, u64>,
    colours: BTreeMap<String, u64>,
    inert: u64,
    clock_reads: u64,
    pid_reads: u64,
    mirror_mismatches: u64,
    same_signal_groups: u64,
    nontrivial_files: BTreeSet<String>,
    files: BTreeSet<String>,
    keys: BTreeSet<String>,
    orders: BTreeMap<usize, BTreeSet<String>>,
}

fn bump(map: &mut BTreeMap<String, u64>, key: &str, n: u64) {
    *map.entry(key.to_owned()).or_insert(0) += n;
}

fn accumulate(t: &mut Totals, r: &Value) {
    t.groups += 1;
    let launches = r.get("launches").and_then(Value::as_u64).unwrap_or(0);
    t.launches += launches;
    let status = r.get("status").and_then(Value::as_str).unwrap_or("?");
    bump(&mut t.status, status, 1);
    if status == "ok" || status == "violation" {
        t.compared_groups += 1;
    }
    bump(&mut t.family, r.get("family").and_then(Value::as_str).unwrap_or("?"), 1);
    bump(&mut t.class, r.get("class").and_then(Value::as_str).unwrap_or("?"), 1);
    bump(&mut t.forms, r.get("form").and_then(Value::as_str).unwrap_or("?"), 1);
    bump(&mut t.launchers, r.get("launcher").and_then(Value::as_str).unwrap_or("?"), 1);
    bump(&mut t.colours, r.get("colour").and_then(Value::as_str).unwrap_or("?"), 1);
    if let Some(m) = r.get("fired").and_then(Value::as_object) {
        for (k, v) in m {
            bump(&mut t.fired, k, v.as_u64().unwrap_or(0));
        }
    }
    t.inert += r.get("inert").and_then(Value::as_u64).unwrap_or(0);
    t.clock_reads += r.get("clock_reads").and_then(Value::as_u64).unwrap_or(0);
    t.pid_reads += r.get("pid_reads").and_then(Value::as_u64).unwrap_or(0);
    t.mirror_mismatches += r.get("mirror_mismatches").and_then(Value::as_u64).unwrap_or(0);
    if r.get("same_signal").and_then(Value::as_bool).unwrap_or(false) {
        t.same_signal_groups += 1;
    }
    let hash = r.get("file_hash").and_then(Value::as_str).unwrap_or("").to_owned();
    if launches >= 2 && (status == "ok" || status == "violation") {
        t.files.insert(hash.clone());
        if r.get("nontrivial").and_then(Value::as_bool).unwrap_or(false) {
            t.nontrivial_files.insert(hash);
        }
    }
    if let Some(a) = r.get("keys").and_then(Value::as_array) {
        for k in a {
            if let Some(s) = k.as_str() {
                t.keys.insert(s.to_owned());
            }
        }
    }
    if let Some(a) = r.get("orders").and_then(Value::as_array) {
        for o in a {
            if let Some(s) = o.as_str() {
                if let Some((n, perm)) = s.split_once(':') {
                    if let Ok(n) = n.parse::<usize>() {
                        t.orders.entry(n).or_default().insert(perm.to_owned());
                    }
                }
            }
        }
    }
}

fn factorial(n: usize) -> u64 {
    (1..=n as u64).product()
}

fn totals_json(t: &Totals) -> Value {
    let orders: Map<String, Value> = t
        .orders
        .iter()
        .map(|(n, set)| (n.to_string(), json!(format!("{}/{}", set.len(), factorial(*n)))))
        .collect();
    // every fault kind the scheduler can draw; those that never fired are listed, not hidden
    // (timed waits, crash points and overlapping launches only fire when the program under test
    // waits with a time-out or touches durable state, which gram on the unchanged tree never does)
    const ALL_KINDS: &[&str] = &[
        "entropy_reseed", "entropy_extreme", "getrandom_short", "getrandom_eintr", "getrandom_no_insecure",
        "same_key_faulty_delivery", "layout_skew", "same_key_displaced_layout", "clock_and_pid_change",
        "same_key_other_clock_and_pid", "same_thread_repeat", "same_key_repeated_on_thread", "thread_stall",
        "history_prior_edit", "history_prior_crash", "overlapping_launch_stalled", "timed_wait_scaled", "file_short_read",
    ];
    let never: Vec<&str> = ALL_KINDS.iter().copied().filter(|k| !t.fired.contains_key(*k)).collect();
    json!({
        "fault_kinds_configured_but_never_fired": never,
        "groups": t.groups,
        "groups_compared": t.compared_groups,
        "launches": t.launches,
        "group_status": t.status,
        "workload_family": t.family,
        "class_histogram": t.class,
        "fault_kinds_fired": t.fired,
        "argv_forms": t.forms,
        "launchers": t.launchers,
        "colour_modes": t.colours,
        "entropy_inert_launches": t.inert,
        "simulated_clock_reads_by_gram": t.clock_reads,
        "simulated_pid_reads_by_gram": t.pid_reads,
        "run_mirror_vs_real_run_mismatches": t.mirror_mismatches,
        "groups_all_launches_same_signal": t.same_signal_groups,
        "distinct_files_compared": t.files.len(),
        "distinct_files_nontrivial": t.nontrivial_files.len(),
        "distinct_keys": t.keys.len(),
        "iteration_orders_covered": orders,
    })
}

fn load_known(args: &Args) -> Vec<Value> {
    fs::read_to_string(&args.known)
        .ok()
        .and_then(|s| serde_json::from_str::<Value>(&s).ok())
        .and_then(|v| v.get("findings").and_then(Value::as_array).cloned())
        .unwrap_or_default()
}

/// An *open* known finding matching this signature, if any. `fixed` entries suppress nothing.
fn matching_open(known: &[Value], class: &str, kinds: &[String]) -> Option<String> {
    for k in known {
        if k.get("status").and_then(Value::as_str) != Some("open") {
            continue;
        }
        if k.get("property").and_then(Value::as_str) != Some("C13") {
            continue;
        }
        let sig = k.get("signature")?;
        let kclass = sig.get("class").and_then(Value::as_str).unwrap_or("");
        let kkinds: Vec<String> = sig
            .get("kinds")
            .and_then(Value::as_array)
            .map(|a| a.iter().filter_map(|x| x.as_str().map(str::to_owned)).collect())
            .unwrap_or_default();
        if kclass == class && kkinds == kinds {
            return Some(k.get("what").and_then(Value::as_str).unwrap_or("").to_owned());
        }
    }
    None
}

fn sample_of(args: &Args, tier: Tier, r: &Value, corpus: &[String]) -> Value {
    let idx = r.get("idx").and_then(Value::as_u64).unwrap_or(0) as usize;
    let spec = sim_group::derive_spec(args.seed, tier, idx, corpus, shape_for(args, tier));
    json!({
        "tier": tier.name(),
        "group": idx,
        "family": spec.family,
        "command": format!("gram {} (path form: {})", spec.form.argv(&spec.file_name).join(" "), spec.path_form),
        "colour_mode": spec.colour.name(),
        "file": String::from_utf8_lossy(&spec.source),
        "plans": spec.plans.iter().map(|p| {
            let mut s = format!("{} key={}", p.kind, p.key_hex());
            if p.has_delivery_fault() { s.push_str(&format!(" eintr={} no_insecure={} chunk={}", p.eintr, p.no_insecure, p.chunk)); }
            if p.has_skew() { s.push_str(&format!(" skew_heap={} skew_mmap={} env_pad={}", p.skew_heap, p.skew_mmap, p.env_pad)); }
            s
        }).collect::<Vec<_>>(),
        "reference_class": r.get("class"),
        "launches_compared": r.get("launches"),
        "verdict": r.get("status"),
    })
}

pub fn write_json(path: &std::path::Path, v: &Value) -> Result<(), String> {
    if let Some(parent) = path.parent() {
        fs::create_dir_all(parent).map_err(|e| format!("{parent:?}: {e}"))?;
    }
    let text = serde_json::to_string_pretty(v).map_err(|e| e.to_string())?;
    let tmp = path.with_extension("json.tmp");
    fs::write(&tmp, text + "\n").map_err(|e| format!("{tmp:?}: {e}"))?;
    fs::rename(&tmp, path).map_err(|e| format!("{path:?}: {e}"))
}

pub fn run_main(args: &Args) -> i32 {
    let started = Instant::now();
    println!("VERIF_SEED={} tier={} jobs={} repo={}", args.seed, args.tier, args.jobs, args.repo.display());
    let thorough = args.tier == "thorough";
    let run_dir = args.work.join(&args.run_id);
    let _ = fs::remove_dir_all(&run_dir);
    if let Err(e) = fs::create_dir_all(&run_dir) {
        eprintln!("HARNESS-ERROR: cannot create {run_dir:?}: {e}");
        return 2;
    }
    let finish = |code: i32| {
        let _ = fs::remove_dir_all(&run_dir);
        code
    };

    // Canaries first: a dead seam makes everything look deterministic.
    let canary = exec_canary(args);
    let (ip_live, ip_repeatable, ip_distinct, ip_orders) = inproc_canary(args);
    // Both tiers implement the same seam: the same key must induce the same iteration orders in
    // the real process and in a launch thread.
    let tiers_agree = !ip_orders.is_empty() && ip_orders == canary.orders_per_key;
    println!(
        "canary: exec entropy live={} repeatable={} distinct={} fork-server={} | layout controlled={} skew acts={} | inproc live={} repeatable={} distinct={}",
        canary.entropy_live, canary.entropy_repeatable, canary.distinct_outputs, canary.fork_server_live,
        canary.layout_controlled, canary.layout_skew_acts && canary.clock_pid_live, ip_live, ip_repeatable, ip_distinct
    );
    if !tiers_agree {
        eprintln!(
            "HARNESS-ERROR: the same keys induce different iteration orders in the two tiers: exec {:?} vs inproc {:?}",
            canary.orders_per_key, ip_orders
        );
        return finish(2);
    }
    if !(canary.entropy_live && canary.entropy_repeatable && canary.clock_pid_live && canary.fork_server_live && ip_live && ip_repeatable) {
        eprintln!("HARNESS-ERROR: entropy seam is not live or not repeatable ({})", canary.note);
        return finish(2);
    }

    // Thread ids in runtime banners: owned through gettid(); if that seam is dead here, fall back
    // to masking them so that two launches stay comparable.
    let mut args_owned = args.clone();
    if !canary.tid_seam_live {
        println!("note: gettid seam not live; thread ids in runtime banners are masked instead");
        args_owned.mask_tid = true;
    }
    let args = &args_owned;
    let corpus = Arc::new(sim_harvest::harvest(&args.repo));
    println!("corpus: {} harvested programs", corpus.len());
    if corpus.len() < 10 {
        eprintln!("HARNESS-ERROR: harvested only {} programs from {}", corpus.len(), args.repo.display());
        return finish(2);
    }

    // The tiers run one after the other with a handful of workers each: in this kind of VM thread
    // and process creation are serialised by the kernel/hypervisor, so more workers only contend
    // (measured: in-process saturates near 6 workers, exec near 3).
    let (ip_deadline, ex_deadline) = if thorough {
        let ip = started + Duration::from_secs(args.budget_s * 50 / 100);
        let ex = started + Duration::from_secs(args.budget_s * 92 / 100);
        (Some(ip), Some(ex))
    } else {
        (None, None)
    };
    let mut phases = vec![];
    for (tier, count, deadline, jobs) in [
        (Tier::InProc, args.ip_groups, ip_deadline, args.jobs.min(8)),
        (Tier::Exec, args.ex_groups, ex_deadline, args.jobs.min(4)),
    ] {
        let mut a = args.clone();
        a.jobs = jobs;
        match run_phase(&a, tier, count, deadline, &corpus) {
            Ok(p) => {
                println!("phase {}: {} groups in {:.1}s", tier.name(), p.records.len(), p.wall_s);
                phases.push(p);
            }
            Err(e) => {
                eprintln!("HARNESS-ERROR: {e}");
                return finish(2);
            }
        }
    }

    // Checks over the recorded history.
    let known = load_known(args);
    let mut totals_all = Totals::default();
    let mut per_tier = Map::new();
    let mut harness_errors = vec![];
    let mut violations: Vec<(Tier, Value)> = vec![];
    let mut samples = vec![];
    let mut inconclusive = vec![];
    let mut discarded = vec![];
    for p in &phases {
        let mut t = Totals::default();
        let mut sampled_classes = BTreeSet::new();
        for r in &p.records {
            accumulate(&mut t, r);
            accumulate(&mut totals_all, r);
            match r.get("status").and_then(Value::as_str).unwrap_or("") {
                "violation" => violations.push((p.tier, r.clone())),
                "harness_error" => harness_errors.push(r.get("note").and_then(Value::as_str).unwrap_or("").to_owned()),
                "inconclusive" => inconclusive.push(json!({"tier": p.tier.name(), "group": r.get("idx"), "note": r.get("note")})),
                "skipped_divergent" | "skipped_resource" => {
                    if discarded.len() < 40 {
                        discarded.push(json!({
                            "tier": p.tier.name(), "group": r.get("idx"), "family": r.get("family"),
                            "why": r.get("status"), "note": r.get("note"), "form": r.get("form"),
                        }));
                    }
                }
                _ => {}
            }
            if r.get("nontrivial").and_then(Value::as_bool).unwrap_or(false) && samples.len() < 12 {
                let class = r.get("class").and_then(Value::as_str).unwrap_or("").to_owned();
                let fam = r.get("family").and_then(Value::as_str).unwrap_or("").to_owned();
                if sampled_classes.insert((class, fam)) && r.get("file_len").and_then(Value::as_u64).unwrap_or(0) < 600 {
                    samples.push(sample_of(args, p.tier, r, &corpus));
                }
            }
        }
        let mut tj = totals_json(&t);
        tj["wall_s"] = json!((p.wall_s * 10.0).round() / 10.0);
        tj["launches_per_hour"] = json!(if p.wall_s > 0.0 { (t.launches as f64 / p.wall_s * 3600.0).round() } else { 0.0 });
        per_tier.insert(p.tier.name().to_owned(), tj);
    }
    if samples.is_empty() {
        if let Some(r) = phases.first().and_then(|p| p.records.first()) {
            samples.push(sample_of(args, phases[0].tier, r, &corpus));
        }
    }

    // Violations: minimise, write replay files, match against the known-findings file.
    let mut reported = 0usize;
    let mut unlisted_violations = 0usize;
    let mut known_lines = BTreeSet::new();
    let mut violation_lines = vec![];
    let mut seen_signatures: BTreeMap<String, usize> = BTreeMap::new();
    let violations_total = violations.len();
    for (tier, r) in &violations {
        let idx = r.get("idx").and_then(Value::as_u64).unwrap_or(0) as usize;
        let Some(spec) = r.get("spec").and_then(Spec::from_json) else {
            harness_errors.push(format!("violation record of group {idx} carries no spec"));
            continue;
        };
        let differing = r.get("differing").and_then(Value::as_u64).unwrap_or(1) as usize;
        // Cheap signature from the unminimised observations decides whether this is a new kind
        // of violation worth minimising (one replay per signature, at most 4 per run).
        let quick_sig = r
            .get("obs")
            .and_then(Value::as_array)
            .filter(|a| a.len() > differing)
            .map(|a| {
                let o = |v: &Value| {
                    let mut fields = vec![];
                    if let Some(m) = v.as_object() {
                        for (k, val) in m {
                            if k != "abnormal" {
                                fields.push((k.clone(), val.as_str().unwrap_or("").to_owned()));
                            }
                        }
                    }
                    sim_group::LaunchObs { abnormal: None, fields }
                };
                sim_group::diff_signature(&o(&a[0]), &o(&a[differing]))
            })
            .unwrap_or_else(|| ("content".to_owned(), vec![]));
        let sig_key = format!("{}:{}", quick_sig.0, quick_sig.1.join("+"));
        let n_seen = seen_signatures.entry(sig_key.clone()).or_insert(0);
        *n_seen += 1;
        if let Some(what) = matching_open(&known, &quick_sig.0, &quick_sig.1) {
            known_lines.insert(format!("KNOWN-FINDING: property=C13 {what}"));
            continue;
        }
        if *n_seen > 1 || reported >= 4 {
            // same signature as a violation already minimised in this run: counted, not re-minimised
            unlisted_violations += 1;
            continue;
        }
        let m = sim_min::minimise(args, &spec, differing);
        if !m.reproduced {
            let path = args.replays.join(format!("C13-s{}-{}-g{}.unreproduced.json", args.seed, tier.name(), idx));
            let _ = write_json(&path, &json!({
                "property": "C13", "seed": args.seed, "tier": tier.name(), "group": idx,
                "note": "launches of this group differed during the run, but neither the pair, nor the group's launch history, nor the exec tier reproduced it in fresh processes; reported as a harness error, not as a violation",
                "original": spec.to_json(), "original_differing_launch": differing, "recorded": r.get("obs"),
            }));
            harness_errors.push(format!(
                "group {idx} of tier {} differed during the run but did not reproduce in a fresh process (recorded in {})",
                tier.name(), path.display()
            ));
            continue;
        }
        if let Some(what) = matching_open(&known, &m.class, &m.kinds) {
            known_lines.insert(format!("KNOWN-FINDING: property=C13 {what}"));
            continue;
        }
        reported += 1;
        unlisted_violations += 1;
        let replay_path = args.replays.join(format!("C13-s{}-{}-g{}.json", args.seed, tier.name(), idx));
        let replay = json!({
            "property": "C13",
            "seed": args.seed,
            "tier": tier.name(),
            "group": idx,
            "repo": args.repo.to_string_lossy(),
            "signature": {"class": m.class, "kinds": m.kinds},
            "minimised": m.spec.to_json(),
            "minimised_observations": m.obs.iter().map(sim_group::LaunchObs::to_json).collect::<Vec<_>>(),
            "minimiser_probes": m.probes,
            "differing_launch": m.differing,
            "reproduced_via": m.route,
            "deterministic": !m.route.starts_with("statistical"),
            "original": spec.to_json(),
            "original_differing_launch": differing,
            "how_to_replay": "./check C13 --replay <this file>",
        });
        match write_json(&replay_path, &replay) {
            Ok(()) => violation_lines.push(format!("VIOLATION property=C13 replay={}", replay_path.display())),
            Err(e) => harness_errors.push(format!("cannot write replay: {e}")),
        }
        println!(
            "  group {} [{}] {} difference in {:?}; reproduced via {}; minimised to {} bytes and {} launches with {} probes",
            idx, tier.name(), m.class, m.kinds, m.route, m.spec.source.len(), m.spec.plans.len(), m.probes
        );
    }

    let wall_s = started.elapsed().as_secs_f64();
    let evaluations = totals_all.launches;
    let distinct_nontrivial = totals_all.nontrivial_files.len() as u64;
    let mut coverage = json!({
        "evaluations": evaluations,
        "distinct_nontrivial": distinct_nontrivial,
        "rule": "One evaluation = one simulated launch of gram on one file under one plan (entropy key, getrandom delivery faults, layout displacement, clock / pid / memory figures, timed-wait scaling, short reads, thread stalls, edit / crash history of the path, a stalled companion launch), compared channel by channel with the reference launch of its group (same command form, file, colour mode). Groups are derived from VERIF_SEED: harvested test-module programs and examples first, then generated families W2-W14. A file counts as non-trivial when its reference launch put at least two diagnostics in flight, or succeeded with output containing a function type, lambda or hole - i.e. something an order dependence could reorder; distinct = distinct file contents (FNV-1a of the bytes) among groups that were actually compared (>= 2 launches, not discarded).",
        "samples": samples,
        "exhaustive": false,
        "totals": totals_json(&totals_all),
        "per_tier": Value::Object(per_tier),
        "launches_per_hour": if wall_s > 0.0 { (evaluations as f64 / wall_s * 3600.0).round() } else { 0.0 },
        "seeds": [args.seed],
        "simulated_time": "not applicable: the system under test reads no clock and has no timer; progress unit = launch",
        "canary": {
            "exec_entropy_seam_live": canary.entropy_live,
            "exec_entropy_seam_repeatable": canary.entropy_repeatable,
            "exec_canary_distinct_outputs": canary.distinct_outputs,
            "layout_seam_controlled": canary.layout_controlled,
            "layout_skew_acts": canary.layout_skew_acts,
            "exec_clock_and_pid_seam_live": canary.clock_pid_live,
            "fork_server_seams_live": canary.fork_server_live,
            "thread_id_seam_live": canary.tid_seam_live,
            "memory_statistics_seam_live": canary.memstat_seam_live,
            "resource_accounting_seam_live": canary.rusage_seam_live,
            "timed_wait_seam_live": canary.timed_wait_seam_live,
            "dev_urandom_seam_live": canary.urandom_seam_live,
            "inproc_entropy_seam_live": ip_live,
            "inproc_entropy_seam_repeatable": ip_repeatable,
            "inproc_canary_distinct_outputs": ip_distinct,
            "tiers_agree_on_orders_per_key": tiers_agree,
        },
        "inconclusive_groups": inconclusive,
        "discarded_groups": discarded,
        "violations_found": violations_total,
        "violation_signatures": seen_signatures,
        "components": {
            "real": [
                "tokenizer, parser, type checker, unifier, normalizer, evaluator, error rendering (both tiers: exec = binary built from the working tree; inproc = the same source files mounted as modules)",
                "main.rs run / entry / main, clap (exec tier)",
                "std RandomState, hashbrown, SipHash (both tiers)",
                "file system, process creation (exec tier; scratch under /verif/work)"
            ],
            "simulated": [
                "getrandom(2): LD_PRELOAD shim (exec) / in-binary symbol (inproc)",
                "clock_gettime / gettimeofday / time and getpid: same two seams (gram never consults them on this tree: see simulated_clock_reads_by_gram)",
                "address-space layout: ASLR off + seeded heap/mmap/stack displacement (exec tier only)"
            ],
            "stub": [
                if crate::sim_inproc::real_main_available() {
                    "main.rs main/entry (clap, thread, exit) in the inproc tier; `run` itself is real in the groups whose launcher is thread:real-main-run (patched copy of main.rs mounted as a module, output captured at descriptor level); the other inproc groups call the stages through a 40-line mirror of `run`, with the real `evaluate` after a step-budgeted pre-flight"
                } else {
                    "main.rs run (inproc tier): 40-line mirror (the patched copy of main.rs did not compile for this tree, so the real `run` could not be mounted); real `evaluate` after a step-budgeted pre-flight"
                }
            ]
        },
    });
    if !canary.layout_controlled {
        coverage["layout_seam_note"] = json!("personality(ADDR_NO_RANDOMIZE) had no effect here: layout varied under kernel control, displacement faults still applied");
    }
    let evidence = json!({
        "property_id": "C13",
        "tier": args.tier,
        "seed": args.seed,
        "level": "exploration",
        "coverage": coverage,
        "assumptions": [
            "OS entropy reaches the process only through getrandom(2) (std's weak-symbol call), AT_RANDOM and the kernel's random devices, all of which the plan owns; ENOSYS from getrandom is not injected",
            "crash points, overlapping launches, timed waits and interval timers exist in the exec tier only; threads a launch creates are biased (start delays, timed-wait scaling), not serialised",
            "timed waits, crash points and overlapping launches fire only if the program waits with a time-out or touches durable state: on the unchanged tree gram does neither, so those kinds are listed under fault_kinds_configured_but_never_fired",
            "groups that hit the wall-clock or memory cap are discarded, never judged",
            "sampling, not enumeration: a dependence visible under one key in a million would be missed"
        ],
        "wall_s": (wall_s * 10.0).round() / 10.0,
        "violations": unlisted_violations,
    });
    if let Err(e) = write_json(&args.evidence, &evidence) {
        eprintln!("HARNESS-ERROR: cannot write evidence: {e}");
        return finish(2);
    }

    println!(
        "explored: {} groups, {} launches, {} distinct files compared ({} non-trivial), {} distinct keys, in {:.1}s",
        totals_all.groups, totals_all.launches, totals_all.files.len(), totals_all.nontrivial_files.len(),
        totals_all.keys.len(), wall_s
    );
    println!("group status: {:?}", totals_all.status);
    println!("fault kinds fired: {:?}", totals_all.fired);
    for line in &known_lines {
        println!("{line}");
    }
    for line in &violation_lines {
        println!("{line}");
    }
    if !harness_errors.is_empty() {
        if !violation_lines.is_empty() {
            // a reproduced violation was reported: that is the verdict; differences that did
            // not show again are mentioned, not turned into a harness error
            for e in harness_errors.iter().take(5) {
                println!("NOTE: {e}");
            }
        } else {
            for e in harness_errors.iter().take(5) {
                eprintln!("HARNESS-ERROR: {e}");
            }
            return finish(2);
        }
    }
    if totals_all.compared_groups == 0 {
        eprintln!("HARNESS-ERROR: no group was compared");
        return finish(2);
    }
    if !violation_lines.is_empty() {
        println!("C13: VIOLATED ({} group(s) differed; {} replay file(s) written)", violations_total, violation_lines.len());
        return finish(1);
    }
    println!("C13: held on everything explored");
    finish(0)
}

/// Re-run a recorded violation in fresh processes.
pub fn replay_main(args: &Args) -> i32 {
    let text = match fs::read_to_string(&args.file) {
        Ok(t) => t,
        Err(e) => {
            eprintln!("HARNESS-ERROR: {}: {e}", args.file.display());
            return 2;
        }
    };
    let Ok(v) = serde_json::from_str::<Value>(&text) else {
        eprintln!("HARNESS-ERROR: {} is not JSON", args.file.display());
        return 2;
    };
    let Some(spec) = v.get("minimised").and_then(Spec::from_json) else {
        eprintln!("HARNESS-ERROR: no minimised spec in {}", args.file.display());
        return 2;
    };
    let mut args = args.clone();
    args.run_id = format!("C13-replay-{}", std::process::id());
    let run_dir = args.work.join(&args.run_id);
    let _ = fs::create_dir_all(&run_dir);
    let deterministic = v.get("deterministic").and_then(Value::as_bool).unwrap_or(true);
    let mut prober = sim_min::Prober::new(&args);
    let mut probe = prober.probe(&spec);
    if !deterministic {
        // the recorded difference depends on something the simulator does not own: sample
        let mut tries = 1;
        while tries < 60 && !probe.as_ref().is_some_and(|p| p.signature().is_some()) {
            prober.fresh_process();
            probe = prober.probe(&spec);
            tries += 1;
        }
        println!("replay: recorded as not deterministic; {tries} fresh process(es) tried");
    }
    drop(prober);
    let _ = fs::remove_dir_all(&run_dir);
    let Some(p) = probe else {
        println!("replay: the launches did not complete (crash or cap): NOT REPRODUCED");
        return 0;
    };
    println!("replay of {} ({} tier, seed {}):", args.file.display(), spec.tier.name(), v.get("seed").and_then(Value::as_u64).unwrap_or(0));
    println!("--- file ---\n{}", String::from_utf8_lossy(&spec.source));
    for (i, o) in p.obs.iter().enumerate() {
        println!("--- launch {} under plan {} ---", i, spec.plans[i].to_json());
        let d = p.differing.unwrap_or(usize::MAX);
        if i != 0 && i != d {
            println!("(same as launch 0)");
            continue;
        }
        for (k, val) in &o.fields {
            let differs = d < p.obs.len() && p.obs[0].field(k) != p.obs[d].field(k);
            if differs || (d >= p.obs.len() && i == 0 && !val.is_empty()) {
                println!("[{k}]\n{val}");
            }
        }
    }
    if let Some((class, kinds)) = p.signature() {
        let recorded: Vec<Value> = v.get("minimised_observations").and_then(Value::as_array).cloned().unwrap_or_default();
        let now: Vec<Value> = p.obs.iter().map(sim_group::LaunchObs::to_json).collect();
        let exact = recorded == now;
        println!("replay: REPRODUCED ({class} difference in {kinds:?}; byte-identical to the recorded observations: {exact})");
        println!("VIOLATION property=C13 replay={}", args.file.display());
        1
    } else {
        println!("replay: all launches agree on this tree: NOT REPRODUCED (status {})", p.status);
        0
    }
}

/// Determinism of the harness itself: same seed => same event log, whatever the worker count.
pub fn selftest_main(args: &Args) -> i32 {
    let seeds = if args.selftest_seeds > 0 { args.selftest_seeds } else { 40 };
    let corpus = Arc::new(sim_harvest::harvest(&args.repo));
    let mut bad = 0u64;
    let mut checked = 0u64;
    let started = Instant::now();
    for s in 0..seeds {
        let seed = args.seed.wrapping_mul(1000).wrapping_add(s);
        let mut logs: Vec<Vec<String>> = vec![];
        for jobs in [1usize, 4, 16, 16] {
            let mut a = args.clone();
            a.seed = seed;
            a.jobs = jobs;
            a.tier = "quick".to_owned();
            a.ip_plans = 8;
            a.ex_plans = 4;
            a.cap_ms = 10_000;
            a.run_id = "C13-selftest".to_owned();
            let _ = fs::create_dir_all(a.work.join(&a.run_id));
            let mut log = vec![];
            // generated groups only (skip the harvested prefix) so that every seed differs
            for (tier, lo, n) in [(Tier::InProc, corpus.len(), 24usize), (Tier::Exec, 1usize, 4usize)] {
                match run_phase_range(&a, tier, lo, n, &corpus) {
                    Ok(records) => {
                        for r in records {
                            log.push(format!(
                                "{} {} {} {} {}",
                                tier.name(),
                                r.get("idx").and_then(Value::as_u64).unwrap_or(0),
                                r.get("status").and_then(Value::as_str).unwrap_or(""),
                                r.get("event").and_then(Value::as_str).unwrap_or(""),
                                r.get("launches").and_then(Value::as_u64).unwrap_or(0),
                            ));
                        }
                    }
                    Err(e) => {
                        eprintln!("HARNESS-ERROR: {e}");
                        return 2;
                    }
                }
            }
            let _ = fs::remove_dir_all(a.work.join(&a.run_id));
            logs.push(log);
        }
        checked += 1;
        for other in &logs[1..] {
            if other != &logs[0] {
                bad += 1;
                eprintln!("selftest: seed {seed}: event logs differ between runs");
                for (x, y) in logs[0].iter().zip(other.iter()) {
                    if x != y {
                        eprintln!("   {x}\n   {y}");
                    }
                }
                break;
            }
        }
    }
    println!(
        "selftest: {checked} seeds x 4 runs (1, 4, 16, 16 workers), {bad} with differing event logs, {:.1}s",
        started.elapsed().as_secs_f64()
    );
    i32::from(bad > 0) * 2
}

/// Like `run_phase` for the index range lo..lo+n.
fn run_phase_range(args: &Args, tier: Tier, lo: usize, n: usize, corpus: &Arc<Vec<String>>) -> Result<Vec<Value>, String> {
    let next = Arc::new(AtomicUsize::new(lo));
    let results: Arc<Mutex<Vec<Value>>> = Arc::new(Mutex::new(vec![]));
    let mut handles = vec![];
    for _ in 0..args.jobs.min(n) {
        let args = args.clone();
        let next = next.clone();
        let results = results.clone();
        let corpus = corpus.clone();
        handles.push(std::thread::spawn(move || {
            let mut worker: Option<WorkerProc> = None;
            loop {
                let idx = next.fetch_add(1, Ordering::SeqCst);
                if idx >= lo + n {
                    break;
                }
                if worker.is_none() {
                    worker = WorkerProc::spawn(&args).ok();
                }
                let Some(w) = worker.as_mut() else { break };
                let job = json!({"job": "group", "tier": tier.name(), "idx": idx});
                let record = match w.request(&job, Duration::from_secs(120)) {
                    Reply::Ok(v) => v,
                    Reply::TimedOut => {
                        worker = None;
                        stub_record(&args, tier, idx, &corpus, "skipped_divergent", "")
                    }
                    Reply::Died(_) => {
                        worker = None;
                        stub_record(&args, tier, idx, &corpus, "skipped_resource", "")
                    }
                };
                results.lock().unwrap().push(record);
            }
        }));
    }
    for h in handles {
        let _ = h.join();
    }
    let mut records = std::mem::take(&mut *results.lock().unwrap());
    records.sort_by_key(|r| r.get("idx").and_then(Value::as_u64).unwrap_or(0));
    Ok(records)
}
