//! A group = all launches of one (command form, file, colour mode); the oracle is relational:
//! every launch of the group must show exactly what the group's reference launch showed.

use crate::sim_entropy::{CallLog, Plan};
use crate::sim_exec::{self, ArgvForm, Colour, Ending, ExecEnv};
use crate::sim_gen;
use crate::sim_inproc;
use crate::sim_rng::{Rng, fnv};
use serde_json::{Map, Value, json};
use std::collections::BTreeMap;
use std::fs;
use std::path::{Path, PathBuf};

#[derive(Clone, Copy, Debug, PartialEq, Eq, PartialOrd, Ord)]
pub enum Tier {
    InProc,
    Exec,
}

impl Tier {
    pub fn name(self) -> &'static str {
        match self {
            Tier::InProc => "inproc",
            Tier::Exec => "exec",
        }
    }
    pub fn from_name(s: &str) -> Tier {
        if s == "exec" { Tier::Exec } else { Tier::InProc }
    }
    fn stream(self) -> u64 {
        match self {
            Tier::InProc => 0x1111,
            Tier::Exec => 0x2222,
        }
    }
}

/// Everything that identifies a group; enough to re-run it anywhere.
#[derive(Clone, Debug)]
pub struct Spec {
    pub tier: Tier,
    pub form: ArgvForm,
    pub colour: Colour,
    pub path_abs: bool,
    /// How the file is named on the command line: plain | abs | dot (`./p.g`) | symlink (a link of
    /// the same length next to the file) | updown (`s/../p.g`). Fixed within a group.
    pub path_form: String,
    pub file_name: String,
    pub family: String,
    pub source: Vec<u8>,
    pub plans: Vec<Plan>,
    /// Exec tier: "exec" = one exec per launch, "fork" = children of a fork server that stopped
    /// the real binary before its own initialisers (same code, ~10x the throughput).
    pub launcher: String,
    /// In-process tier: "stages" = the library stages called directly (both commands observed
    /// from one pass), "main" = additionally the repository's real `main.rs run` for the group's
    /// command form, with its output captured at descriptor level.
    pub mode: String,
    /// In-process tier: "thread" = every launch of the group is a fresh thread of one process
    /// (the group's own forked child), "process" = every launch is a process of its own, so that
    /// lazily initialised process-wide state is fresh per launch as it is in reality.
    pub isolation: String,
}

impl Spec {
    pub fn to_json(&self) -> Value {
        json!({
            "tier": self.tier.name(),
            "form": self.form.name(),
            "colour": self.colour.name(),
            "path_abs": self.path_abs,
            "path_form": self.path_form,
            "file_name": self.file_name,
            "family": self.family,
            "source": String::from_utf8_lossy(&self.source),
            "source_hex": if std::str::from_utf8(&self.source).is_ok() { Value::Null } else {
                Value::String(self.source.iter().map(|b| format!("{b:02x}")).collect()) },
            "plans": self.plans.iter().map(Plan::to_json).collect::<Vec<_>>(),
            "launcher": self.launcher,
            "mode": self.mode,
            "isolation": self.isolation,
        })
    }
    pub fn from_json(v: &Value) -> Option<Spec> {
        let source = match v.get("source_hex").and_then(Value::as_str) {
            Some(hex) => (0..hex.len() / 2)
                .map(|i| u8::from_str_radix(&hex[2 * i..2 * i + 2], 16).unwrap_or(0))
                .collect(),
            None => v.get("source")?.as_str()?.as_bytes().to_vec(),
        };
        Some(Spec {
            tier: Tier::from_name(v.get("tier")?.as_str()?),
            form: ArgvForm::from_name(v.get("form")?.as_str()?),
            colour: Colour::from_name(v.get("colour")?.as_str()?),
            path_abs: v.get("path_abs")?.as_bool()?,
            path_form: v
                .get("path_form")
                .and_then(Value::as_str)
                .map_or_else(|| if v.get("path_abs").and_then(Value::as_bool).unwrap_or(false) { "abs" } else { "plain" }.to_owned(), str::to_owned),
            file_name: v.get("file_name")?.as_str()?.to_owned(),
            family: v.get("family").and_then(Value::as_str).unwrap_or("replay").to_owned(),
            source,
            plans: v.get("plans")?.as_array()?.iter().filter_map(Plan::from_json).collect(),
            launcher: v.get("launcher").and_then(Value::as_str).unwrap_or("exec").to_owned(),
            mode: v.get("mode").and_then(Value::as_str).unwrap_or("stages").to_owned(),
            isolation: v.get("isolation").and_then(Value::as_str).unwrap_or("thread").to_owned(),
        })
    }
}

/// Sizes of a tier's exploration.
#[derive(Clone, Copy, Debug)]
pub struct Shape {
    /// Plans (launches) per group.
    pub plans: usize,
}

fn key_plus_one(key: [u8; 16]) -> [u8; 16] {
    // What the *next* RandomState of the same thread is keyed with: k0 + 1.
    let mut k0 = [0u8; 8];
    k0.copy_from_slice(&key[..8]);
    let k0 = u64::from_ne_bytes(k0).wrapping_add(1).to_ne_bytes();
    let mut out = key;
    out[..8].copy_from_slice(&k0);
    out
}

/// Derive the plans of a group. Index 0 is the reference: a fresh key, faithful delivery, no
/// displacement. Which fault kinds are enabled is itself drawn per group (swarm).
pub fn derive_plans(rng: &mut Rng, tier: Tier, count: usize) -> Vec<Plan> {
    let reference = Plan::plain("reference", rng.bytes16());
    let mut plans = vec![reference.clone()];
    let enable_delivery = rng.chance(2, 3);
    let enable_extreme = rng.chance(3, 4);
    let enable_skew = rng.chance(3, 4);
    let enable_identity = rng.chance(1, 2);
    let enable_repeat = tier == Tier::InProc && rng.chance(1, 2);
    let enable_stall = tier == Tier::Exec && rng.chance(1, 2);
    let enable_history = rng.chance(1, 2);
    let enable_io_timing = rng.chance(1, 2);
    while plans.len() < count {
        let roll = rng.below(100);
        let mut plan = if enable_extreme && roll < 5 {
            Plan::plain("entropy_extreme:zero", [0u8; 16])
        } else if enable_extreme && roll < 10 {
            Plan::plain("entropy_extreme:ones", [0xffu8; 16])
        } else if enable_extreme && roll < 18 {
            let mut key = reference.key;
            let bit = rng.below(128);
            key[bit / 8] ^= 1 << (bit % 8);
            Plan::plain("entropy_extreme:bitflip", key)
        } else if enable_extreme && roll < 26 {
            Plan::plain("entropy_extreme:k0+1", key_plus_one(reference.key))
        } else if enable_delivery && roll < 33 {
            // same key as the reference, only the delivery differs: must change nothing
            Plan::plain("delivery_only", reference.key)
        } else if enable_skew && roll < 41 {
            // same key as the reference, only the layout differs
            Plan::plain("layout_only", reference.key)
        } else if enable_identity && roll < 48 {
            // same key as the reference, only clock and pid differ
            Plan::plain("identity_only", reference.key)
        } else if enable_repeat && roll < 55 {
            // same key as the reference, the stages having already run on this thread
            Plan::plain("repeat_only", reference.key)
        } else {
            Plan::plain("entropy_reseed", rng.bytes16())
        };
        let force_delivery = plan.kind == "delivery_only";
        if force_delivery || (enable_delivery && rng.chance(1, 4)) {
            match rng.below(3) {
                0 => plan.chunk = rng.range(1, 15) as u32,
                1 => plan.eintr = rng.range(1, 3) as u32,
                _ => plan.no_insecure = true,
            }
            if rng.chance(1, 4) {
                plan.chunk = rng.range(1, 15) as u32;
                plan.eintr = rng.range(1, 3) as u32;
            }
        }
        let force_skew = plan.kind == "layout_only";
        if force_skew || (enable_skew && rng.chance(1, 2)) {
            plan.skew_heap = (rng.range(1, 4096) as u64) * 16;
            // thread arenas sit at 64 MiB-aligned addresses: displace by whole arenas plus pages
            // (the page part covers every residue modulo 16 MiB, gram's thread stack size)
            plan.skew_mmap = (rng.range(0, 40) as u64) * (64 << 20) + (rng.range(0, 4095) as u64) * 4096;
            plan.env_pad = rng.range(1, 4000) as u32;
        }
        let force_identity = plan.kind == "identity_only";
        if force_identity || (enable_identity && rng.chance(1, 3)) {
            // clock skew and jumps: the epoch itself, the far future, a frozen clock, a fast one
            plan.clock_base = match rng.below(6) {
                0 => 0,
                1 => 4_102_444_800 + rng.below(1_000_000) as u64, // year 2100
                2 => crate::sim_entropy::REF_CLOCK_BASE - rng.range(1, 86_400 * 365) as u64,
                _ => crate::sim_entropy::REF_CLOCK_BASE + rng.range(1, 86_400 * 365) as u64,
            };
            plan.clock_step_ns = match rng.below(4) {
                0 => 0,
                1 => 1,
                2 => 3_600_000_000_000,
                _ => crate::sim_entropy::REF_CLOCK_STEP_NS,
            };
            plan.pid = rng.range(2, 4_000_000) as u32;
            // memory statistics: tiny, moderate, over typical budgets (64 MiB, 1 GiB, 16 GiB)
            plan.rss_kib = *rng.pick(&[64u64, 8192, 50_000, 100_000, 2_000_000, 20_000_000]);
        }
        if enable_stall && rng.chance(1, 2) {
            // a slow thread: the first created thread is gram's own worker (stall it rarely and
            // briefly, it only adds latency); later ones exist only if a change creates them
            let first = if rng.chance(1, 4) { rng.range(50, 300) as u32 } else { 0 };
            plan.stall = vec![first];
            plan.linger = vec![0];
            for _ in 0..rng.range(1, 5) {
                // either the new thread starts late, or its creator is held back so that the new
                // thread runs first
                if rng.chance(1, 2) {
                    plan.stall.push(*rng.pick(&[0u32, 200, 1000, 3000]));
                    plan.linger.push(0);
                } else {
                    plan.stall.push(0);
                    plan.linger.push(*rng.pick(&[200u32, 1000, 3000]));
                }
            }
        }
        let force_repeat = plan.kind == "repeat_only";
        if force_repeat || (enable_repeat && rng.chance(1, 6)) {
            plan.repeat = rng.range(1, 3) as u32;
        }
        if enable_history && rng.chance(1, 4) {
            plan.prior_edit = rng.range(1, 1 << 30) as u32;
        }
        if enable_history && tier == Tier::Exec && plan.prior_edit == 0 && rng.chance(1, 4) {
            plan.prior_crash = *rng.pick(&[1u32, 1, 2, 2, 3, 3, 4, 5, 6, 8, 11]);
        }
        if enable_history && tier == Tier::Exec && plan.prior_edit == 0 && plan.prior_crash == 0 && rng.chance(1, 5) {
            plan.overlap = *rng.pick(&[1u32, 1, 2, 2, 3, 4, 5, 6]);
        }
        if enable_io_timing && rng.chance(1, 3) {
            // timed waits run out at once / early / late; reads of the file come in pieces
            if rng.chance(2, 3) {
                plan.wait_ppm = *rng.pick(&[0u32, 0, 1000, 100_000, 3_000_000]);
            }
            if rng.chance(2, 3) {
                plan.read_chunk = *rng.pick(&[1u32, 3, 7, 64, 1000, 4096, 5000]);
                plan.read_eintr = rng.below(3) as u32;
            }
        }
        plans.push(plan);
    }
    // In some groups the very first launch already has a crashed launch behind it (a cold cache
    // torn by a kill is only ever written by the first launch that sees the file).
    if tier == Tier::Exec && enable_history && rng.chance(1, 3) {
        plans[0].prior_crash = *rng.pick(&[2u32, 3, 3, 4, 4, 5, 6, 8]);
    }
    plans
}

/// A sibling version of a source file for the history fault: the same number of bytes, one to
/// three small edits (another digit, another operator, a boolean for a number of the same width,
/// `bool` for `type`, two names of equal length exchanged). `None` if nothing in the text can be
/// edited that way. A function of (source, seed) only.
pub fn sibling_source(source: &[u8], seed: u32) -> Option<Vec<u8>> {
    let text = std::str::from_utf8(source).ok()?;
    let mut rng = Rng::derive(u64::from(seed), 0x5157, source.len() as u64);
    let mut bytes = source.to_vec();
    // candidate sites: (offset, replacement)
    let mut sites: Vec<(usize, Vec<u8>)> = vec![];
    let b = text.as_bytes();
    let is_word = |c: u8| c.is_ascii_alphanumeric() || c == b'_' || c >= 0x80;
    let mut i = 0;
    while i < b.len() {
        let c = b[i];
        if is_word(c) {
            let start = i;
            while i < b.len() && is_word(b[i]) {
                i += 1;
            }
            let word = &b[start..i];
            let repl: Option<&[u8]> = match word {
                b"true" => Some(b"1234"),
                b"false" => Some(b"12345"),
                b"bool" => Some(b"type"),
                b"type" => Some(b"bool"),
                b"int" => Some(b"123"),
                _ => None,
            };
            if let Some(r) = repl {
                sites.push((start, r.to_vec()));
            } else if word.iter().all(u8::is_ascii_digit) {
                let k = rng.below(word.len());
                let mut w = word.to_vec();
                w[k] = b'0' + ((w[k] - b'0' + 1 + rng.below(8) as u8) % 10);
                sites.push((start, w));
                if word.len() == 4 {
                    sites.push((start, b"true".to_vec()));
                }
            }
            continue;
        }
        if (c == b'+' || c == b'*') && i + 1 < b.len() && b[i + 1] == b' ' && i > 0 && b[i - 1] == b' ' {
            sites.push((i, vec![if c == b'+' { b'*' } else { b'+' }]));
        }
        i += 1;
    }
    if sites.is_empty() {
        return None;
    }
    let edits = rng.range(1, 3).min(sites.len());
    for _ in 0..edits {
        let (at, repl) = sites[rng.below(sites.len())].clone();
        bytes[at..at + repl.len()].copy_from_slice(&repl);
    }
    if bytes == source { None } else { Some(bytes) }
}

/// Derive group `idx` of `tier` for `seed`. A function of (seed, tier, idx, corpus) only.
pub fn derive_spec(seed: u64, tier: Tier, idx: usize, corpus: &[String], shape: Shape) -> Spec {
    let mut rng = Rng::derive(seed, tier.stream(), idx as u64);
    let (family, source) = match tier {
        // every harvested program once, then generated ones
        Tier::InProc if idx < corpus.len() => ("W1-harvested".to_owned(), corpus[idx].clone().into_bytes()),
        Tier::Exec if idx % 4 == 0 && !corpus.is_empty() => {
            ("W1-harvested".to_owned(), corpus[(idx / 4) % corpus.len()].clone().into_bytes())
        }
        _ => {
            let case = sim_gen::generate(&mut rng, corpus);
            (case.family.to_owned(), case.source.into_bytes())
        }
    };
    let form = match rng.below(5) {
        0 | 1 => ArgvForm::Check,
        2 | 3 => ArgvForm::Run,
        _ => ArgvForm::Bare,
    };
    let colour = match rng.below(4) {
        0 | 1 => Colour::NoColor,
        2 => Colour::Force,
        _ => Colour::Unset,
    };
    let path_form = match rng.below(12) {
        0..=5 => "plain",
        6..=8 => "abs",
        9 => "dot",
        10 => "symlink",
        _ => "updown",
    };
    let path_abs = path_form == "abs";
    let plans = derive_plans(&mut rng, tier, shape.plans);
    let launcher = if tier == Tier::Exec && rng.chance(4, 5) { "fork" } else { "exec" };
    let mode = if tier == Tier::InProc && rng.chance(2, 5) { "main" } else { "stages" };
    // forks are serialised by this kind of VM (~550/s in total), so only a slice of the groups
    // gets a process per launch, and those use the first six plans only
    let isolation = if tier == Tier::InProc && rng.chance(1, 14) { "process" } else { "thread" };
    let isolation = if tier == Tier::InProc && family == "W12-divergent" { "process" } else { isolation };
    let plans = if isolation == "process" { plans.into_iter().take(6).collect() } else { plans };
    Spec {
        launcher: launcher.to_owned(),
        mode: mode.to_owned(),
        isolation: isolation.to_owned(),
        tier,
        form,
        colour,
        path_abs,
        path_form: path_form.to_owned(),
        file_name: format!("p{idx}.g"),
        family,
        source,
        plans,
    }
}

/// What one launch showed, as named byte channels (uniform over both tiers).
#[derive(Clone, Debug, PartialEq, Eq)]
pub struct LaunchObs {
    /// "timeout" | "signal N": the launch ended for a reason outside what gram prints.
    pub abnormal: Option<String>,
    pub fields: Vec<(String, String)>,
}

impl LaunchObs {
    pub fn to_json(&self) -> Value {
        let mut m = Map::new();
        if let Some(a) = &self.abnormal {
            m.insert("abnormal".to_owned(), Value::String(a.clone()));
        }
        for (k, v) in &self.fields {
            m.insert(k.clone(), Value::String(v.clone()));
        }
        Value::Object(m)
    }
    pub fn digest(&self) -> u64 {
        let mut h = fnv(self.abnormal.as_deref().unwrap_or("").as_bytes());
        for (k, v) in &self.fields {
            h = h.rotate_left(7) ^ fnv(k.as_bytes()) ^ fnv(v.as_bytes()).rotate_left(13);
        }
        h
    }
    pub fn field(&self, name: &str) -> &str {
        self.fields.iter().find(|(k, _)| k == name).map_or("", |(_, v)| v.as_str())
    }
    /// All diagnostic / output text, for classification.
    pub fn all_text(&self) -> String {
        self.fields.iter().map(|(_, v)| v.as_str()).collect::<Vec<_>>().join("\n")
    }
}

pub struct Envs {
    pub exec: ExecEnv,
    pub work: PathBuf,
    pub step_budget: u64,
}

/// Outcome of running a spec.
#[derive(Clone, Debug)]
pub struct Outcome {
    /// ok | violation | skipped_divergent | skipped_resource | inconclusive | harness_error
    pub status: String,
    pub note: String,
    pub launches: usize,
    pub obs: Vec<LaunchObs>,
    pub logs: Vec<CallLog>,
    /// index of the first launch that differs from the reference
    pub differing: Option<usize>,
    /// reach probe: iteration orders induced by the keys of this group's launches ("n:perm")
    pub orders: Vec<String>,
    /// harness self-check: launches in which the mirror of `run` and the real `run` disagreed
    pub mirror_mismatches: u64,
    /// launches that were preceded by a launch on a sibling version of the file at the same path
    pub history_faults: u64,
    /// earlier launches of a `prior_crash` history that were actually killed at their crash point
    pub crash_faults: u64,
    /// launches that ran next to a companion launch stalled part-way
    pub overlap_faults: u64,
}

fn colour_override(colour: Colour) {
    match colour {
        Colour::Force => colored::control::set_override(true),
        Colour::NoColor | Colour::Unset => colored::control::set_override(false),
    }
}

fn obs_inproc(
    spec: &Spec,
    path: &str,
    capture_dir: &Path,
    plan: &Plan,
    step_budget: u64,
    orders: &mut Vec<String>,
    mirror_mismatches: &mut u64,
) -> (LaunchObs, CallLog) {
    let Ok(source) = std::str::from_utf8(&spec.source) else {
        // `read_to_string` fails before any stage runs; mirror main's message shape minimally.
        return (
            LaunchObs { abnormal: None, fields: vec![("stage".to_owned(), "read".to_owned())] },
            CallLog::default(),
        );
    };
    if spec.mode == "main" && sim_inproc::real_main_available() {
        let check_only = spec.form == ArgvForm::Check;
        return match sim_inproc::launch_main(path, source, check_only, capture_dir, plan, step_budget) {
            Ok((o, real, log, launch_orders)) => {
                for order in launch_orders {
                    let s: Vec<String> = order.iter().map(ToString::to_string).collect();
                    orders.push(format!("{}:{}", order.len(), s.join("")));
                }
                let mut fields = vec![
                    ("stage".to_owned(), o.stage.clone()),
                    ("errors".to_owned(), o.errors.join("\n\u{1e}\n")),
                ];
                match real {
                    Some(r) => {
                        // Harness self-check, not part of the oracle: the 40-line mirror of `run`
                        // used by the "stages" groups must print what the real `run` prints.
                        let (m_status, m_out, m_err) = if check_only {
                            (o.check_status, &o.check_out, &o.check_err)
                        } else {
                            (o.run_status, &o.run_out, &o.run_err)
                        };
                        if !o.capped && (m_status != r.status || *m_out != r.stdout || *m_err != r.stderr) {
                            *mirror_mismatches += 1;
                        }
                        fields.push(("status".to_owned(), r.status.to_string()));
                        fields.push(("stdout".to_owned(), r.stdout));
                        fields.push(("stderr".to_owned(), r.stderr));
                    }
                    None => fields.push(("capped".to_owned(), "step budget".to_owned())),
                }
                (LaunchObs { abnormal: None, fields }, log)
            }
            Err(msg) => (
                LaunchObs {
                    abnormal: None,
                    // The real binary would let the Rust runtime print its panic banner, which carries
                    // the panicking thread's id (= the plan's pid for the first thread that asks, see
                    // the gettid seam): mirror that dependency, so that a panic is compared the way
                    // the exec tier compares it.
                    fields: vec![
                        ("stage".to_owned(), "panic".to_owned()),
                        ("errors".to_owned(), msg.clone()),
                        ("stderr".to_owned(), format!("thread '<unnamed>' ({}) panicked: {msg}", plan.pid)),
                    ],
                },
                CallLog::default(),
            ),
        };
    }
    match sim_inproc::launch(path, source, plan, step_budget) {
        Ok((o, log, launch_orders)) => {
            for order in launch_orders {
                let s: Vec<String> = order.iter().map(ToString::to_string).collect();
                orders.push(format!("{}:{}", order.len(), s.join("")));
            }
            let mut fields = vec![
                ("stage".to_owned(), o.stage.clone()),
                ("errors".to_owned(), o.errors.join("\n\u{1e}\n")),
                ("check_status".to_owned(), o.check_status.to_string()),
                ("check_stdout".to_owned(), o.check_out.clone()),
                ("check_stderr".to_owned(), o.check_err.clone()),
                ("run_status".to_owned(), o.run_status.to_string()),
                ("run_stdout".to_owned(), o.run_out.clone()),
                ("run_stderr".to_owned(), o.run_err.clone()),
            ];
            if o.capped {
                fields.push(("capped".to_owned(), "step budget".to_owned()));
            }
            (LaunchObs { abnormal: None, fields }, log)
        }
        Err(msg) => (
            LaunchObs {
                abnormal: None,
                // The real binary would let the Rust runtime print its panic banner, which carries
                    // the panicking thread's id (= the plan's pid for the first thread that asks, see
                    // the gettid seam): mirror that dependency, so that a panic is compared the way
                    // the exec tier compares it.
                    fields: vec![
                        ("stage".to_owned(), "panic".to_owned()),
                        ("errors".to_owned(), msg.clone()),
                        ("stderr".to_owned(), format!("thread '<unnamed>' ({}) panicked: {msg}", plan.pid)),
                    ],
            },
            CallLog::default(),
        ),
    }
}

/// One launch in a process of its own (see `sim_fork`): the child runs the launch exactly as the
/// thread-isolated path does and ships what it saw back as JSON.
fn obs_inproc_isolated(
    spec: &Spec,
    path: &str,
    capture_dir: &Path,
    plan: &Plan,
    envs: &Envs,
    orders: &mut Vec<String>,
    mirror_mismatches: &mut u64,
) -> (LaunchObs, CallLog) {
    // divergent programs are the point of one small family: do not wait long for them
    let cap = if spec.family == "W12-divergent" { envs.exec.cap.min(std::time::Duration::from_millis(1500)) } else { envs.exec.cap };
    let crash_log = capture_dir.join("child.stderr");
    let _ = fs::create_dir_all(capture_dir);
    let _ = fs::remove_file(&crash_log);
    let end = crate::sim_fork::in_child(cap, || {
        // whatever the Rust runtime says when this process dies (stack overflow, abort) goes
        // where the parent can read it
        sim_inproc::redirect_stderr_to(&crash_log);
        sim_inproc::EVALUATE_EVEN_IF_CAPPED.store(true, std::sync::atomic::Ordering::Relaxed);
        let mut child_orders = vec![];
        let mut child_mismatches = 0u64;
        let (obs, log) = obs_inproc(spec, path, capture_dir, plan, envs.step_budget, &mut child_orders, &mut child_mismatches);
        json!({
            "obs": obs.to_json(),
            "calls": log.calls.iter().map(|c| json!([c.0, c.1, c.2])).collect::<Vec<_>>(),
            "clock_reads": log.clock_reads,
            "pid_reads": log.pid_reads,
            "orders": child_orders,
            "mismatches": child_mismatches,
        })
        .to_string()
    });
    match end {
        crate::sim_fork::ChildEnd::Replied(text) => {
            let v: Value = serde_json::from_str(&text).unwrap_or(Value::Null);
            let obs = v.get("obs").map_or(
                LaunchObs { abnormal: Some("garbled reply".to_owned()), fields: vec![] },
                crate::sim_min::obs_from_json,
            );
            let mut log = CallLog::default();
            if let Some(calls) = v.get("calls").and_then(Value::as_array) {
                for c in calls {
                    if let Some(a) = c.as_array() {
                        if a.len() == 3 {
                            log.calls.push((
                                a[0].as_u64().unwrap_or(0) as usize,
                                a[1].as_u64().unwrap_or(0) as u32,
                                a[2].as_i64().unwrap_or(0),
                            ));
                        }
                    }
                }
            }
            log.clock_reads = v.get("clock_reads").and_then(Value::as_u64).unwrap_or(0);
            log.pid_reads = v.get("pid_reads").and_then(Value::as_u64).unwrap_or(0);
            if let Some(o) = v.get("orders").and_then(Value::as_array) {
                orders.extend(o.iter().filter_map(|x| x.as_str().map(str::to_owned)));
            }
            *mirror_mismatches += v.get("mismatches").and_then(Value::as_u64).unwrap_or(0);
            (obs, log)
        }
        crate::sim_fork::ChildEnd::Died(how) => {
            // e.g. "signal 6": the launch exhausted its stack; handled like a signal ending of
            // the real binary. What the runtime said is kept only as far as it is the same in
            // every launch (the overflow notice itself), so that equal endings compare equal.
            let said = fs::read_to_string(&crash_log).unwrap_or_default();
            let notice = if said.contains("has overflowed its stack") { "has overflowed its stack" } else { "" };
            (
                LaunchObs {
                    abnormal: Some(how.clone()),
                    fields: vec![("status".to_owned(), how), ("stderr".to_owned(), notice.to_owned())],
                },
                CallLog::default(),
            )
        }
        crate::sim_fork::ChildEnd::TimedOut => (
            LaunchObs { abnormal: Some("timeout".to_owned()), fields: vec![("status".to_owned(), "timeout".to_owned())] },
            CallLog::default(),
        ),
    }
}

/// Run every launch of the spec and compare with the reference as each returns.
/// `stop_at_first` ends the group at the first difference (the normal mode).
/// Same bytes, different file: before each launch the input file's metadata follows the plan. On
/// odd keys the file is replaced by a fresh copy (new inode, new creation time); its modification
/// and access times are set from the plan's clock (up to 255 hours before "now"). The content the
/// program reads is byte-identical in every launch, so any difference this causes is the program's.
fn file_metadata_fault(path: &Path, source: &[u8], plan: &Plan) {
    if plan.key[2] & 1 == 1 {
        let fresh = path.with_extension("fresh");
        if fs::write(&fresh, source).is_ok() && fs::rename(&fresh, path).is_err() {
            let _ = fs::remove_file(&fresh);
        }
    }
    let secs = plan.clock_base.saturating_sub(1 + u64::from(plan.key[1]) * 3600);
    let when = std::time::UNIX_EPOCH + std::time::Duration::new(secs, u32::from(plan.key[3]) * 1_000_000);
    if let Ok(file) = fs::File::options().write(true).open(path) {
        let _ = file.set_times(fs::FileTimes::new().set_modified(when).set_accessed(when));
    }
}

/// One launch of `spec` under `plan`, in whichever tier and isolation mode the group uses.
/// `Err((status, note))` ends the group without a verdict.
#[allow(clippy::too_many_arguments)]
fn launch_one(
    spec: &Spec,
    path_arg: &str,
    dir: &Path,
    plan: &Plan,
    envs: &Envs,
    tag: &str,
    orders: &mut Vec<String>,
    mirror_mismatches: &mut u64,
) -> Result<(LaunchObs, CallLog), (String, String)> {
let (obs, log) = match spec.tier {
        Tier::InProc if spec.isolation == "process" => {
            obs_inproc_isolated(spec, &path_arg, &dir, plan, envs, orders, mirror_mismatches)
        }
        Tier::InProc => {
            obs_inproc(spec, &path_arg, &dir, plan, envs.step_budget, orders, mirror_mismatches)
        }
        Tier::Exec => {
            let launched = if spec.launcher == "fork" {
                sim_exec::launch_forked(&envs.exec, &envs.exec.gram, &spec.form.argv(&path_arg), &dir, &dir, spec.colour, plan, tag)
            } else {
                sim_exec::launch_gram(&envs.exec, spec.form, &path_arg, &dir, &dir, spec.colour, plan, tag)
            };
            match launched {
                Ok((o, log)) => {
                    let abnormal = match &o.ending {
                        Ending::Exit(_) => None,
                        Ending::Signal(s) => Some(format!("signal {s}")),
                        Ending::TimedOut => Some("timeout".to_owned()),
                    };
                    let status = match &o.ending {
                        Ending::Exit(c) => c.to_string(),
                        Ending::Signal(s) => format!("signal {s}"),
                        Ending::TimedOut => "timeout".to_owned(),
                    };
                    (
                        LaunchObs {
                            abnormal,
                            fields: vec![
                                ("status".to_owned(), status),
                                ("stdout".to_owned(), String::from_utf8_lossy(&o.stdout).into_owned()),
                                ("stderr".to_owned(), String::from_utf8_lossy(&o.stderr).into_owned()),
                            ],
                        },
                        log,
                    )
                }
                Err(e) if spec.launcher == "fork" => {
                    // the fork server lost sync (it is restarted for the next group); nothing
                    // can be concluded about this group
                    return Err(("skipped_resource".to_owned(), format!("fork server: {e}")));
                }
                Err(e) => {
                    return Err(("harness_error".to_owned(), e));
                }
            }
        }
    };
    Ok((obs, log))
}

pub fn run_spec(spec: &Spec, envs: &Envs, scratch_tag: &str, stop_at_first: bool) -> Outcome {
    let mut out = Outcome {
        status: "ok".to_owned(),
        note: String::new(),
        launches: 0,
        obs: vec![],
        logs: vec![],
        differing: None,
        orders: vec![],
        mirror_mismatches: 0,
        history_faults: 0,
        crash_faults: 0,
        overlap_faults: 0,
    };
    let dir = envs.work.join(scratch_tag);
    let link_name = format!("q{}", &spec.file_name[1.min(spec.file_name.len())..]);
    let path_arg = match spec.path_form.as_str() {
        "abs" => dir.join(&spec.file_name).to_string_lossy().into_owned(),
        "dot" => format!("./{}", spec.file_name),
        "symlink" => link_name.clone(),
        "updown" => format!("s/../{}", spec.file_name),
        _ => spec.file_name.clone(),
    };
    // the file-system furniture the path form needs (only where a real file is opened)
    let furnish = |dir: &Path| -> std::io::Result<()> {
        match spec.path_form.as_str() {
            "symlink" => {
                let _ = fs::remove_file(dir.join(&link_name));
                std::os::unix::fs::symlink(&spec.file_name, dir.join(&link_name))
            }
            "updown" => fs::create_dir_all(dir.join("s")),
            _ => Ok(()),
        }
    };
    if spec.tier == Tier::Exec {
        if let Err(e) = fs::create_dir_all(dir.join("tmp"))
            .and_then(|()| fs::create_dir_all(dir.join("home")))
            .and_then(|()| fs::write(dir.join(&spec.file_name), &spec.source))
            .and_then(|()| furnish(&dir))
        {
            out.status = "harness_error".to_owned();
            out.note = format!("scratch {dir:?}: {e}");
            return out;
        }
    } else {
        colour_override(spec.colour);
        // the group's own temporary directory (durable state between its launches)
        let tmp = dir.join("tmp");
        if fs::create_dir_all(&tmp).is_ok() {
            // SAFETY: the worker's main thread is the only thread at this point.
            unsafe { std::env::set_var("TMPDIR", &tmp) };
        }
        // and its own home directory (durable state under ~/.cache, ~/.config ...)
        let home = dir.join("home");
        if fs::create_dir_all(&home).is_ok() {
            // SAFETY: as above.
            unsafe { std::env::set_var("HOME", &home) };
        }
        if spec.mode == "main" && sim_inproc::real_main_available() {
            // the real `run` reads the file itself; a relative path is resolved against the cwd
            if let Err(e) = fs::create_dir_all(&dir)
                .and_then(|()| fs::write(dir.join(&spec.file_name), &spec.source))
                .and_then(|()| furnish(&dir))
                .and_then(|()| std::env::set_current_dir(&dir))
            {
                out.status = "harness_error".to_owned();
                out.note = format!("scratch {dir:?}: {e}");
                return out;
            }
        }
    }

    let file_on_disk = spec.tier == Tier::Exec || (spec.mode == "main" && sim_inproc::real_main_available());
    for (i, plan) in spec.plans.iter().enumerate() {
        if file_on_disk && plan.prior_edit != 0 && spec.isolation != "process" {
            if let Some(sibling) = sibling_source(&spec.source, plan.prior_edit) {
                // history fault: the path held a sibling version, which was launched; the true
                // bytes come back with the same modification time
                let file = dir.join(&spec.file_name);
                let mut earlier = spec.clone();
                earlier.source = sibling;
                let wrote = fs::write(&file, &earlier.source).is_ok();
                if wrote {
                    let mut earlier_plan = plan.clone();
                    earlier_plan.key[2] &= 0xfe; // edited in place: same inode
                    file_metadata_fault(&file, &earlier.source, &earlier_plan);
                    let mut scratch_orders = vec![];
                    let mut scratch_mismatches = 0u64;
                    let tag = format!("h{i}");
                    let prior = launch_one(&earlier, &path_arg, &dir, plan, envs, &tag, &mut scratch_orders, &mut scratch_mismatches);
                    let _ = fs::write(&file, &spec.source);
                    match prior {
                        Ok((o, _)) if o.abnormal.as_deref() == Some("timeout") => {
                            out.status = "skipped_divergent".to_owned();
                            break;
                        }
                        Ok(_) => out.history_faults += 1,
                        Err((status, note)) => {
                            out.status = status;
                            out.note = note;
                            break;
                        }
                    }
                }
            }
        }
        if spec.tier == Tier::Exec && plan.prior_crash != 0 {
            // history fault: the same command on the same file, killed at a crash point; what it
            // had made durable by then is there for the observed launch
            let mut victim = plan.clone();
            victim.crash_at = plan.prior_crash;
            file_metadata_fault(&dir.join(&spec.file_name), &spec.source, plan);
            let mut scratch_orders = vec![];
            let mut scratch_mismatches = 0u64;
            let tag = format!("c{i}");
            match launch_one(spec, &path_arg, &dir, &victim, envs, &tag, &mut scratch_orders, &mut scratch_mismatches) {
                Ok((o, log)) => {
                    if o.abnormal.as_deref() == Some("timeout") {
                        out.status = "skipped_divergent".to_owned();
                        break;
                    }
                    if log.crashed {
                        out.crash_faults += 1;
                    }
                }
                Err((status, note)) => {
                    out.status = status;
                    out.note = note;
                    break;
                }
            }
        }
        if file_on_disk {
            let mut p = plan.clone();
            if plan.prior_edit != 0 {
                p.key[2] &= 0xfe; // an in-place edit keeps the inode
            }
            file_metadata_fault(&dir.join(&spec.file_name), &spec.source, &p);
        }
        // overlap fault: another launch of the same command is in flight, stalled part-way
        let mut companion = None;
        if spec.tier == Tier::Exec && plan.overlap != 0 {
            companion = sim_exec::spawn_companion(&envs.exec, &spec.form.argv(&path_arg), &dir, &dir, spec.colour, &spec.plans[0], &format!("o{i}"), plan.overlap, 400);
            if let Some((_, true)) = &companion {
                out.overlap_faults += 1;
            }
        }
        let tag = format!("l{i}");
        let launched = launch_one(spec, &path_arg, &dir, plan, envs, &tag, &mut out.orders, &mut out.mirror_mismatches);
        if let Some((mut child, _)) = companion {
            // let the companion finish (it resumes by itself), but never wait for a divergent one
            let t0 = std::time::Instant::now();
            while matches!(child.try_wait(), Ok(None)) && t0.elapsed() < std::time::Duration::from_millis(1500) {
                std::thread::sleep(std::time::Duration::from_millis(2));
            }
            let _ = child.kill();
            let _ = child.wait();
            let _ = fs::remove_file(dir.join(format!("o{i}.log")));
        }
        let (obs, log) = match launched {
            Ok(pair) => pair,
            Err((status, note)) => {
                out.status = status;
                out.note = note;
                break;
            }
        };
        out.launches += 1;
        let timed_out = obs.abnormal.as_deref() == Some("timeout");
        out.obs.push(obs);
        out.logs.push(log);
        if timed_out {
            // The cap decides nothing: the whole group is discarded.
            out.status = "skipped_divergent".to_owned();
            break;
        }
        if i > 0 && out.obs[i] != out.obs[0] && out.differing.is_none() {
            out.differing = Some(i);
            if stop_at_first {
                break;
            }
        }
    }

    if spec.tier == Tier::Exec {
        let _ = fs::remove_dir_all(&dir);
    } else {
        if spec.mode == "main" && sim_inproc::real_main_available() {
            let _ = std::env::set_current_dir(&envs.work);
        }
        let _ = fs::remove_dir_all(&dir);
    }
    if out.status == "ok" {
        if let Some(i) = out.differing {
            // Endings that are the machine's, not gram's: a signal (stack exhaustion, memory cap),
            // or main.rs reporting that the OS refused it a thread.
            let starved = |o: &LaunchObs| o.all_text().contains("Error spawning thread");
            let any_abnormal = out.obs[0].abnormal.is_some()
                || out.obs[i].abnormal.is_some()
                || starved(&out.obs[0])
                || starved(&out.obs[i]);
            // One exception: in the exec tier and in process-per-launch groups, one launch
            // exhausting its stack (the runtime says so) while the other, given exactly the same
            // work, ends normally. Nothing the plans
            // vary touches the stack of the thread gram does its work on (an exact-size mapping),
            // so on a tree where that holds the two cannot differ; if they do, the work has moved
            // to a stack whose usable size depends on the launch (S54: `check` on the main
            // thread, whose start the kernel randomises) - a difference of exit status that real
            // launches show too.
            let overflowed = |o: &LaunchObs| {
                o.abnormal.as_deref() == Some("signal 6") && o.field("stderr").contains("has overflowed its stack")
            };
            let normal = |o: &LaunchObs| o.abnormal.is_none() && !starved(o);
            let stack_verdict_differs = (spec.tier == Tier::Exec || spec.isolation == "process")
                && ((overflowed(&out.obs[0]) && normal(&out.obs[i])) || (normal(&out.obs[0]) && overflowed(&out.obs[i])));
            if stack_verdict_differs {
                out.status = "violation".to_owned();
                out.note = "stack exhausted in one launch, normal ending in the other".to_owned();
            } else if any_abnormal {
                // One of the two launches was ended by a signal (stack exhaustion, memory cap):
                // resource endings are not gram output, so nothing is concluded either way.
                out.status = "inconclusive".to_owned();
                out.note = format!(
                    "reference {:?} vs launch {} {:?}",
                    out.obs[0].abnormal, i, out.obs[i].abnormal
                );
            } else {
                out.status = "violation".to_owned();
            }
        } else if out.obs.iter().any(|o| o.abnormal.is_some()) {
            // All launches ended by the same signal with identical output: compared and equal,
            // but recorded separately.
            out.note = "all launches ended by the same signal".to_owned();
        }
    }
    out
}

/// Diagnostic kinds, by the wording of the repository's messages. Used only for reach accounting
/// and for the signature of a finding; never by the oracle.
pub fn kinds_in(text: &str) -> BTreeMap<&'static str, usize> {
    let table: &[(&str, &str)] = &[
        ("Unexpected symbol", "lexical"),
        ("Expected ", "syntax"),
        ("was never closed", "syntax"),
        ("not in scope", "scoping"),
        ("already exists", "scoping"),
        ("will not be available in time", "definition-order"),
        ("This has type", "type"),
        ("is not a type", "type"),
        ("don\u{2019}t match", "type"),
        ("when a function was expected", "type"),
        ("is stuck", "stuck"),
        ("Error when reading file", "read"),
        ("panicked", "panic"),
        ("has overflowed its stack", "stack-overflow"),
    ];
    let mut out = BTreeMap::new();
    for (needle, kind) in table {
        let n = text.matches(needle).count();
        if n > 0 {
            *out.entry(*kind).or_insert(0) += n;
        }
    }
    out
}

/// In-flight class of a reference launch: what an order-dependence could have reordered.
pub fn classify(spec: &Spec, reference: &LaunchObs) -> (String, bool) {
    let text = match spec.tier {
        Tier::InProc => {
            // `check` and `run` print the same diagnostics up to the evaluator: count them once
            let c = reference.field("check_stderr");
            let r = reference.field("run_stderr");
            let m = reference.field("stderr");
            if !m.is_empty() {
                m.to_owned()
            } else if c == r {
                c.to_owned()
            } else {
                format!("{c}\n{r}")
            }
        }
        Tier::Exec => reference.field("stderr").to_owned(),
    };
    let diag = match spec.tier {
        Tier::InProc => {
            let e = reference.field("errors");
            if e.is_empty() { 0 } else { e.split("\n\u{1e}\n").count() }
        }
        Tier::Exec => text.matches("[Error]").count(),
    };
    let kinds = kinds_in(&text);
    if let Some(a) = &reference.abnormal {
        return (format!("abnormal:{a}"), false);
    }
    if diag == 0 {
        let out = match spec.tier {
            Tier::InProc => format!(
                "{}{}{}",
                reference.field("check_stdout"),
                reference.field("run_stdout"),
                reference.field("stdout")
            ),
            Tier::Exec => reference.field("stdout").to_owned(),
        };
        let rich = out.contains("->") || out.contains("=>") || out.contains('_');
        let stage = reference.field("stage");
        let label = if stage == "read" {
            "unreadable"
        } else if rich {
            "success:rich"
        } else {
            "success:plain"
        };
        (label.to_owned(), rich)
    } else {
        let mut label: Vec<String> = kinds.iter().map(|(k, n)| format!("{k}x{}", (*n).min(9))).collect();
        if label.is_empty() {
            label.push("other".to_owned());
        }
        (format!("diag:{}", label.join("+")), diag >= 2)
    }
}

/// Class and signature of a difference between two observations.
pub fn diff_signature(a: &LaunchObs, b: &LaunchObs) -> (String, Vec<String>) {
    let mut lines_a: Vec<&str> = vec![];
    let mut lines_b: Vec<&str> = vec![];
    let mut differing_text = String::new();
    let names: Vec<&String> = a.fields.iter().map(|(k, _)| k).collect();
    let mut status_differs = false;
    for name in names {
        let va = a.field(name);
        let vb = b.field(name);
        if va != vb {
            if name.contains("status") {
                status_differs = true;
            }
            let la: Vec<&str> = va.lines().collect();
            let lb: Vec<&str> = vb.lines().collect();
            for i in 0..la.len().max(lb.len()) {
                let x = la.get(i).copied().unwrap_or("");
                let y = lb.get(i).copied().unwrap_or("");
                if x != y {
                    differing_text.push_str(x);
                    differing_text.push('\n');
                    differing_text.push_str(y);
                    differing_text.push('\n');
                }
            }
            lines_a.extend(la);
            lines_b.extend(lb);
        }
    }
    lines_a.sort_unstable();
    lines_b.sort_unstable();
    let class = if a.fields.len() != b.fields.len() || status_differs {
        "content"
    } else if lines_a == lines_b {
        "order-only"
    } else {
        "content"
    };
    let kinds: Vec<String> = kinds_in(&differing_text).keys().map(|k| (*k).to_owned()).collect();
    (class.to_owned(), kinds)
}

pub fn scratch_root(work: &Path, run_id: &str) -> PathBuf {
    work.join(run_id)
}

/// Stack-boundary probe (exec tier): find, for one command form, the deepest program of a family
/// that still ends normally under the reference plan, then launch the programs around that depth
/// under plans that displace the initial stack by amounts within what the kernel's own
/// randomisation does (environment padding of 0-8 KiB). gram does its work on a thread whose
/// stack is an exact-size mapping, so the verdict at a given depth must not depend on the
/// padding; it does as soon as some of the work runs on the main thread.
pub fn stack_boundary_probe(seed: u64, idx: usize, envs: &Envs, scratch_tag: &str) -> (Spec, Outcome) {
    let mut rng = Rng::derive(seed, 0xB0DA, idx as u64);
    let form = [ArgvForm::Check, ArgvForm::Run, ArgvForm::Bare][idx % 3];
    let shape = rng.below(3);
    let program = |d: usize| -> Vec<u8> {
        match shape {
            0 => format!("{}1{}\n", "(".repeat(d), ")".repeat(d)),
            1 => {
                let mut t = String::new();
                for i in 0..d {
                    t.push_str(&format!("c{i} = {}\n", if i == 0 { "1".to_owned() } else { format!("c{} + 1", i - 1) }));
                }
                t.push_str(&format!("c{}\n", d.saturating_sub(1)));
                t
            }
            _ => format!("{}1\n", "1 + ".repeat(d)),
        }
        .into_bytes()
    };
    let reference = Plan::plain("reference", rng.bytes16());
    let base = Spec {
        tier: Tier::Exec,
        form,
        colour: Colour::NoColor,
        path_abs: false,
        path_form: "plain".to_owned(),
        file_name: format!("b{idx}.g"),
        family: "W11-stack-boundary".to_owned(),
        source: vec![],
        plans: vec![reference.clone()],
        launcher: "exec".to_owned(),
        mode: "stages".to_owned(),
        isolation: "thread".to_owned(),
    };
    let ends_normally = |d: usize| -> Option<bool> {
        let mut s = base.clone();
        s.source = program(d);
        let o = run_spec(&s, envs, scratch_tag, true);
        let first = o.obs.first()?;
        match first.abnormal.as_deref() {
            None => Some(true),
            Some("signal 6") => Some(false),
            Some(_) => None, // timeout or another signal: no boundary to be found this way
        }
    };
    // exponential then binary search for the largest depth that ends normally
    let mut lo = 8usize;
    let mut hi = 16usize;
    let limit = 40_000usize;
    let mut found = false;
    loop {
        match ends_normally(hi) {
            Some(true) => {
                lo = hi;
                if hi >= limit {
                    break;
                }
                hi = (hi * 2).min(limit);
            }
            Some(false) => {
                found = true;
                break;
            }
            None => break,
        }
    }
    let mut last = (base.clone(), run_spec(&base, envs, scratch_tag, true));
    if !found {
        last.0.source = program(lo);
        last.1.note = "no stack boundary below the depth limit".to_owned();
        return last;
    }
    while hi - lo > 1 {
        let mid = lo + (hi - lo) / 2;
        match ends_normally(mid) {
            Some(true) => lo = mid,
            Some(false) => hi = mid,
            None => break,
        }
    }
    // around the boundary, under stack displacements within the kernel's own range
    let mut launches = 0;
    for d in lo.saturating_sub(1)..=lo + 2 {
        let mut s = base.clone();
        s.source = program(d);
        for pad in [1500u32, 3000, 5000, 8000] {
            let mut p = Plan::plain("layout_only", reference.key);
            p.env_pad = pad;
            s.plans.push(p);
        }
        let o = run_spec(&s, envs, scratch_tag, true);
        launches += o.launches;
        let stop = o.status != "ok";
        last = (s, o);
        if stop {
            break;
        }
    }
    last.1.launches = launches.max(last.1.launches);
    last
}
