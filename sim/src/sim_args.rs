//! Command line of the harness binary (driver and worker share it).

use std::path::PathBuf;

#[derive(Clone, Debug)]
pub struct Args {
    pub command: String,
    pub tier: String,
    pub seed: u64,
    pub jobs: usize,
    pub budget_s: u64,
    pub repo: PathBuf,
    pub gram: PathBuf,
    pub shim: PathBuf,
    pub canary: PathBuf,
    pub work: PathBuf,
    pub evidence: PathBuf,
    pub replays: PathBuf,
    pub known: PathBuf,
    pub file: PathBuf,
    pub run_id: String,
    pub ip_plans: usize,
    pub ex_plans: usize,
    pub ip_groups: usize,
    pub ex_groups: usize,
    pub cap_ms: u64,
    pub mem_cap: u64,
    pub steps: u64,
    pub selftest_seeds: u64,
    /// worker role: "" = ordinary worker, "clean" = never runs gram code itself (every launch in
    /// a forked child), serves the process-isolated groups of an ordinary worker
    pub role: String,
    /// fallback: mask thread ids in runtime banners (the gettid seam is dead)
    pub mask_tid: bool,
}

impl Args {
    pub fn parse(argv: &[String]) -> Result<Args, String> {
        let mut a = Args {
            command: argv.get(1).cloned().unwrap_or_default(),
            tier: "quick".to_owned(),
            seed: 1,
            jobs: 4,
            budget_s: 600,
            repo: PathBuf::from("/repo"),
            gram: PathBuf::new(),
            shim: PathBuf::new(),
            canary: PathBuf::new(),
            work: PathBuf::from("/verif/work"),
            evidence: PathBuf::from("/verif/evidence/C13.json"),
            replays: PathBuf::from("/verif/replays"),
            known: PathBuf::from("/verif/known_findings.json"),
            file: PathBuf::new(),
            run_id: String::new(),
            ip_plans: 0,
            ex_plans: 0,
            ip_groups: 0,
            ex_groups: 0,
            cap_ms: 0,
            mem_cap: 8 << 30,
            steps: 150_000,
            selftest_seeds: 0,
            role: String::new(),
            mask_tid: false,
        };
        let mut i = 2;
        while i < argv.len() {
            let key = argv[i].as_str();
            let val = argv.get(i + 1).cloned().ok_or_else(|| format!("missing value for {key}"))?;
            let num = || val.parse::<u64>().map_err(|e| format!("{key} {val}: {e}"));
            match key {
                "--tier" => a.tier = val.clone(),
                "--seed" => a.seed = num()?,
                "--jobs" => a.jobs = (num()? as usize).max(1),
                "--budget" => a.budget_s = num()?,
                "--repo" => a.repo = PathBuf::from(&val),
                "--gram" => a.gram = PathBuf::from(&val),
                "--shim" => a.shim = PathBuf::from(&val),
                "--canary" => a.canary = PathBuf::from(&val),
                "--work" => a.work = PathBuf::from(&val),
                "--evidence" => a.evidence = PathBuf::from(&val),
                "--replays" => a.replays = PathBuf::from(&val),
                "--known" => a.known = PathBuf::from(&val),
                "--file" => a.file = PathBuf::from(&val),
                "--run-id" => a.run_id = val.clone(),
                "--ip-plans" => a.ip_plans = num()? as usize,
                "--ex-plans" => a.ex_plans = num()? as usize,
                "--ip-groups" => a.ip_groups = num()? as usize,
                "--ex-groups" => a.ex_groups = num()? as usize,
                "--cap-ms" => a.cap_ms = num()?,
                "--mem-cap" => a.mem_cap = num()?,
                "--steps" => a.steps = num()?,
                "--selftest-seeds" => a.selftest_seeds = num()?,
                "--role" => a.role = val.clone(),
                "--mask-tid" => a.mask_tid = val == "1",
                _ => return Err(format!("unknown argument {key}")),
            }
            i += 2;
        }
        let thorough = a.tier == "thorough";
        if a.ip_plans == 0 {
            a.ip_plans = if thorough { 8 } else { 7 };
        }
        if a.ex_plans == 0 {
            a.ex_plans = if thorough { 6 } else { 5 };
        }
        if a.ip_groups == 0 {
            // harvested programs come first, generated ones after; thorough is time-boxed instead
            a.ip_groups = if thorough { usize::MAX } else { 7400 };
        }
        if a.ex_groups == 0 {
            a.ex_groups = if thorough { usize::MAX } else { 600 };
        }
        if a.cap_ms == 0 {
            a.cap_ms = if thorough { 20_000 } else { 10_000 };
        }
        if a.run_id.is_empty() {
            a.run_id = format!("C13-{}-s{}", a.tier, a.seed);
        }
        Ok(a)
    }

    /// Arguments handed to a worker process.
    pub fn worker_argv(&self) -> Vec<String> {
        let mut v = vec!["worker".to_owned()];
        let mut push = |k: &str, val: String| {
            v.push(k.to_owned());
            v.push(val);
        };
        push("--tier", self.tier.clone());
        push("--seed", self.seed.to_string());
        push("--repo", self.repo.to_string_lossy().into_owned());
        push("--gram", self.gram.to_string_lossy().into_owned());
        push("--shim", self.shim.to_string_lossy().into_owned());
        push("--work", self.work.to_string_lossy().into_owned());
        push("--run-id", self.run_id.clone());
        push("--ip-plans", self.ip_plans.to_string());
        push("--ex-plans", self.ex_plans.to_string());
        push("--cap-ms", self.cap_ms.to_string());
        push("--mem-cap", self.mem_cap.to_string());
        push("--steps", self.steps.to_string());
        if !self.role.is_empty() {
            push("--role", self.role.clone());
        }
        if self.mask_tid {
            push("--mask-tid", "1".to_owned());
        }
        v
    }
}
